//! C01: save/reload stability over histories  Load(T0) ; ( Edit* ; Save ; [Environment] ; Reload )^k
//! through the simulated file system, under controlled hash-iteration order and (separately) I/O faults.

use crate::gen::{feats_string, merge_feats, render_nodes, DocGen, Features, GenOpts, LayoutOpts};
use crate::runner::{guarded, with_hash_keys, Cx, Scenario, Tier, Violation};
use crate::sut;
use crate::vfs::{Chunking, Fault, SimFs, EACCES, EIO, EMFILE, ENOENT, ENOSPC};
use a2lfile::*;
use std::collections::BTreeMap;

pub struct C01Cycles {
    pub faults: bool,
}

// ------------------------------------------------------------------------------------------------
// building and editing models through the public API

pub struct Namer {
    pub n: u64,
    /// the file declares ASAP2_VERSION >= 1.60 (1.71 for API-built models): newer enum items and elements may be used
    pub modern: bool,
    /// an edit used swap_remove: list order no longer equals output order (the writer orders by position ids)
    pub order_disturbed: bool,
    /// the input had position-restricted siblings out of position order: the writer sorts them (documented
    /// normalisation), so the order of RECORD_LAYOUT.reserved is not part of the comparison
    pub reserved_order_free: bool,
    /// an edit step found the library contradicting its own contract (reported by the caller)
    pub edit_violation: Option<String>,
}

impl Namer {
    pub fn ident(&mut self, cx: &mut Cx) -> String {
        self.n += 1;
        let stem = cx.tape.pick_str(&["api_obj", "Api.Obj", "x[0].y", "_u", "VeryLongIdentifier_With_Parts.AndDots[3]"]);
        format!("{stem}_{}", self.n)
    }
}

pub fn api_string(cx: &mut Cx) -> String {
    let n = cx.tape.draw(3);
    let mut s = String::new();
    for _ in 0..n {
        s.push_str(cx.tape.pick_str(&["text", " ", "\"quoted\"", "back\\slash", "tab\t", "line\nbreak", "cr\r", "it's", "ünï°", "日本", "😀", "", "// x", "/* y */", "%6.3"]));
    }
    s
}

pub fn api_float(cx: &mut Cx) -> f64 {
    if cx.tape.chance(1, 4) {
        // an arbitrary finite double with all its significant digits
        let v = f64::from_bits(cx.tape.draw_u64());
        if v.is_finite() {
            return v;
        }
        return (cx.tape.draw(1_000_000_000) as f64) / 997.0;
    }
    *cx.tape.pick(&[0.0, 1.0, -1.0, 0.1, 100.0, 1e-7, -2.5e-5, 1e15, 123456.789, 1.5e300, f64::MIN_POSITIVE, 255.0, 65535.0, -0.0, 1e10, 1e-4, 0.0001, 9999999999.0, 3.4028234663852886e38])
}

fn new_measurement(cx: &mut Cx, nm: &mut Namer) -> Measurement {
    let mut m = Measurement::new(
        nm.ident(cx),
        api_string(cx),
        if nm.modern { *cx.tape.pick(&[DataType::Ubyte, DataType::Sword, DataType::Float32Ieee, DataType::AUint64]) } else { *cx.tape.pick(&[DataType::Ubyte, DataType::Sword, DataType::Float32Ieee]) },
        nm.ident(cx),
        cx.tape.draw(65536) as u16,
        api_float(cx),
        api_float(cx),
        api_float(cx),
    );
    if cx.tape.chance(1, 2) {
        m.ecu_address = Some(EcuAddress::new(cx.tape.draw_u64() as u32));
    }
    if cx.tape.chance(1, 3) {
        m.bit_mask = Some(BitMask::new(cx.tape.draw_u64()));
    }
    if cx.tape.chance(1, 3) {
        let mut a = Annotation::new();
        a.annotation_label = Some(AnnotationLabel::new(api_string(cx)));
        let mut t = AnnotationText::new();
        for _ in 0..cx.tape.draw(3) {
            t.annotation_text_list.push(api_string(cx));
        }
        a.annotation_text = Some(t);
        m.annotation.push(a);
    }
    if cx.tape.chance(1, 4) {
        m.format = Some(Format::new(api_string(cx)));
    }
    if nm.modern && cx.tape.chance(1, 4) {
        m.symbol_link = Some(SymbolLink::new(api_string(cx), cx.tape.draw_u64() as i32));
    }
    if cx.tape.chance(1, 4) {
        let mut md = MatrixDim::new();
        for _ in 0..cx.tape.draw(4) {
            md.dim_list.push(cx.tape.draw(100) as u16);
        }
        if !md.dim_list.is_empty() {
            m.matrix_dim = Some(md);
        }
    }
    m
}

fn new_characteristic(cx: &mut Cx, nm: &mut Namer) -> Characteristic {
    let mut c = Characteristic::new(
        nm.ident(cx),
        api_string(cx),
        *cx.tape.pick(&[CharacteristicType::Value, CharacteristicType::Curve, CharacteristicType::Map, CharacteristicType::ValBlk]),
        cx.tape.draw_u64() as u32,
        nm.ident(cx),
        api_float(cx),
        nm.ident(cx),
        api_float(cx),
        api_float(cx),
    );
    if cx.tape.chance(1, 3) {
        c.extended_limits = Some(ExtendedLimits::new(api_float(cx), api_float(cx)));
    }
    if cx.tape.chance(1, 3) {
        let ad = AxisDescr::new(AxisDescrAttribute::StdAxis, nm.ident(cx), nm.ident(cx), cx.tape.draw(1000) as u16, api_float(cx), api_float(cx));
        c.axis_descr.push(ad);
    }
    if cx.tape.chance(1, 4) {
        c.display_identifier = Some(DisplayIdentifier::new(nm.ident(cx)));
    }
    c
}

fn new_compu_method(cx: &mut Cx, nm: &mut Namer) -> CompuMethod {
    let mut c = CompuMethod::new(nm.ident(cx), api_string(cx), if nm.modern { *cx.tape.pick(&[ConversionType::Identical, ConversionType::Linear, ConversionType::RatFunc, ConversionType::TabVerb]) } else { *cx.tape.pick(&[ConversionType::Form, ConversionType::RatFunc, ConversionType::TabVerb]) }, api_string(cx), api_string(cx));
    match cx.tape.draw(3) {
        0 => c.coeffs = Some(Coeffs::new(api_float(cx), api_float(cx), api_float(cx), api_float(cx), api_float(cx), api_float(cx))),
        1 if nm.modern => c.coeffs_linear = Some(CoeffsLinear::new(api_float(cx), api_float(cx))),
        _ => {}
    }
    c
}

fn new_compu_vtab(cx: &mut Cx, nm: &mut Namer) -> CompuVtab {
    let n = cx.tape.draw(4) as u16;
    let mut c = CompuVtab::new(nm.ident(cx), api_string(cx), ConversionType::TabVerb, n);
    for _ in 0..n {
        c.value_pairs.push(ValuePairsStruct::new(api_float(cx), api_string(cx)));
    }
    if cx.tape.chance(1, 2) {
        c.default_value = Some(DefaultValue::new(api_string(cx)));
    }
    c
}

fn new_group(cx: &mut Cx, nm: &mut Namer) -> Group {
    let mut g = Group::new(nm.ident(cx), api_string(cx));
    if cx.tape.chance(1, 2) {
        g.root = Some(Root::new());
    }
    if cx.tape.chance(1, 2) {
        let mut r = RefMeasurement::new();
        for _ in 0..cx.tape.draw(4) {
            r.identifier_list.push(nm.ident(cx));
        }
        g.ref_measurement = Some(r);
    }
    if cx.tape.chance(1, 3) {
        let mut r = SubGroup::new();
        for _ in 0..1 + cx.tape.draw(3) {
            r.identifier_list.push(nm.ident(cx));
        }
        g.sub_group = Some(r);
    }
    g
}

fn new_record_layout(cx: &mut Cx, nm: &mut Namer) -> RecordLayout {
    let mut r = RecordLayout::new(nm.ident(cx));
    if cx.tape.chance(1, 2) {
        r.fnc_values = Some(FncValues::new(1 + cx.tape.draw(5) as u16, DataType::Ulong, IndexMode::RowDir, AddrType::Direct));
    }
    // ascending positions: the writer sorts position-restricted siblings by position (documented normalisation)
    let mut pos = 10u16;
    for _ in 0..cx.tape.draw(3) {
        pos += 1 + cx.tape.draw(5) as u16;
        r.reserved.push(Reserved::new(pos, DataTypeSize::Word));
    }
    r
}

/// push one new MODULE-level element; returns a description
fn push_new(cx: &mut Cx, nm: &mut Namer, module: &mut Module) -> String {
    match cx.tape.draw(12) {
        0 | 1 => {
            let m = new_measurement(cx, nm);
            let d = format!("push MEASUREMENT {}", m.get_name());
            module.measurement.push(m);
            d
        }
        2 => {
            let c = new_characteristic(cx, nm);
            let d = format!("push CHARACTERISTIC {}", c.get_name());
            module.characteristic.push(c);
            d
        }
        3 => {
            let c = new_compu_method(cx, nm);
            let d = format!("push COMPU_METHOD {}", c.get_name());
            module.compu_method.push(c);
            d
        }
        4 => {
            let c = new_compu_vtab(cx, nm);
            let d = format!("push COMPU_VTAB {}", c.get_name());
            module.compu_vtab.push(c);
            d
        }
        5 => {
            let g = new_group(cx, nm);
            let d = format!("push GROUP {}", g.get_name());
            module.group.push(g);
            d
        }
        6 => {
            let r = new_record_layout(cx, nm);
            let d = format!("push RECORD_LAYOUT {}", r.get_name());
            module.record_layout.push(r);
            d
        }
        7 => {
            let mut f = Function::new(nm.ident(cx), api_string(cx));
            if cx.tape.chance(1, 2) {
                f.function_version = Some(FunctionVersion::new(api_string(cx)));
            }
            let d = format!("push FUNCTION {}", f.get_name());
            module.function.push(f);
            d
        }
        8 => {
            let u = Unit::new(nm.ident(cx), api_string(cx), api_string(cx), *cx.tape.pick(&[UnitType::Derived, UnitType::ExtendedSi]));
            let d = format!("push UNIT {}", u.get_name());
            module.unit.push(u);
            d
        }
        9 => {
            let a = AxisPts::new(nm.ident(cx), api_string(cx), cx.tape.draw_u64() as u32, nm.ident(cx), nm.ident(cx), api_float(cx), nm.ident(cx), cx.tape.draw(500) as u16, api_float(cx), api_float(cx));
            let d = format!("push AXIS_PTS {}", a.get_name());
            module.axis_pts.push(a);
            d
        }
        10 => {
            let n = cx.tape.draw(3) as u16;
            let mut t = CompuTab::new(nm.ident(cx), api_string(cx), *cx.tape.pick(&[ConversionType::TabIntp, ConversionType::TabNointp]), n);
            for _ in 0..n {
                t.tab_entry.push(TabEntryStruct::new(api_float(cx), api_float(cx)));
            }
            let d = format!("push COMPU_TAB {}", t.get_name());
            module.compu_tab.push(t);
            d
        }
        _ => {
            let n = cx.tape.draw(3) as u16;
            let mut t = CompuVtabRange::new(nm.ident(cx), api_string(cx), n);
            for _ in 0..n {
                t.value_triples.push(ValueTriplesStruct::new(api_float(cx), api_float(cx), api_string(cx)));
            }
            let d = format!("push COMPU_VTAB_RANGE {}", t.get_name());
            module.compu_vtab_range.push(t);
            d
        }
    }
}

pub fn build_api_model(cx: &mut Cx, nm: &mut Namer) -> A2lFile {
    let mut file = a2lfile::new();
    if cx.tape.chance(1, 2) {
        let mut h = Header::new(api_string(cx));
        if cx.tape.chance(1, 2) {
            h.version = Some(Version::new(api_string(cx)));
        }
        file.project.header = Some(h);
    }
    let n = cx.tape.draw(12);
    for _ in 0..n {
        cx.tape.begin_group();
        let d = push_new(cx, nm, &mut file.project.module[0]);
        cx.tape.end_group();
        cx.event(&format!("  build: {d}"));
    }
    if cx.tape.chance(1, 3) {
        file.project.module[0].mod_common = Some(ModCommon::new(api_string(cx)));
    }
    if cx.tape.chance(1, 4) {
        // an A2ML block created through the API; the text is raw text between the keywords
        // (the variant without white space next to the keywords is known finding KF-C01-3; it is kept rare because a
        // known finding suppresses its oracle for the whole run)
        let text = if cx.tape.chance(1, 10) {
            "block \"IF_DATA\" taggedunion { \"X\" int; };"
        } else {
            cx.tape.pick_str(&["\n    block \"IF_DATA\" taggedunion { \"X\" int; };\n  ", " block \"IF_DATA\" taggedstruct { \"Y\" (uint)*; }; ", "\tblock \"IF_DATA\" taggedunion { \"X\" int; };\n"])
        };
        if !text.starts_with(|c: char| c.is_ascii_whitespace()) || !text.ends_with(|c: char| c.is_ascii_whitespace()) {
            cx.trigger("api-built-a2ml-text-without-surrounding-white-space");
        }
        file.project.module[0].a2ml = Some(A2ml::new(text.to_string()));
        cx.probe("api-built-a2ml-block");
    }
    file
}

/// one edit through the public API; returns its description (None: nothing to edit)
pub fn apply_edit(cx: &mut Cx, nm: &mut Namer, file: &mut A2lFile) -> Option<String> {
    if file.project.module.is_empty() {
        return None;
    }
    let mi = cx.tape.draw(file.project.module.len() as u64) as usize;
    let module = &mut file.project.module[mi];
    match cx.tape.draw(18) {
        14 => {
            // the whole-file operations of the public API are edits like any other: the result must save and reload
            let before: Vec<String> = file.project.module.iter().map(|m| m.get_name().to_string()).collect();
            file.sort();
            // sort() and sort_new_items() put every list into the order in which it is written
            nm.order_disturbed = false;
            let after: Vec<String> = file.project.module.iter().map(|m| m.get_name().to_string()).collect();
            cx.probe("edit:sort()");
            if before != after && file.project.module.iter().any(|m| m.a2ml.is_some()) {
                // known finding KF-C01-2: an A2ML block applies to the IF_DATA that follow it in the file, also in later
                // MODULEs; sort() orders the MODULEs by name and can move the block behind the IF_DATA it describes
                cx.trigger("sort()-reordered-the-modules-of-a-file-with-a2ml");
            }
            Some("sort()".to_string())
        }
        15 => {
            file.cleanup();
            cx.probe("edit:cleanup()");
            Some("cleanup()".to_string())
        }
        16 => {
            file.ifdata_cleanup();
            cx.probe("edit:ifdata_cleanup()");
            Some("ifdata_cleanup()".to_string())
        }
        17 => {
            file.sort_new_items();
            nm.order_disturbed = false;
            cx.probe("edit:sort_new_items()");
            Some("sort_new_items()".to_string())
        }
        13 => {
            // merge_includes() on a model without includes: must not change anything that is written or compared
            let before = file.clone();
            file.merge_includes();
            if *file != before {
                nm.edit_violation = Some(format!("merge_includes() changed a model that has no includes: {}", model_diff(&before, file)));
            }
            Some("merge_includes() on the whole file".to_string())
        }
        11 => {
            // reset_location() on one MODULE-level element: it is then written like a new element (at the end of
            // its module), with all its children
            macro_rules! reset_in {
                ($($list:ident),*) => {{
                    let mut res = None;
                    let lists: [&str; 8] = ["measurement", "characteristic", "compu_method", "group", "function", "axis_pts", "record_layout", "compu_vtab"];
                    let start = cx.tape.draw(8) as usize;
                    for off in 0..8 {
                        let which = lists[(start + off) % 8];
                        $(
                            if which == stringify!($list) && !module.$list.is_empty() && res.is_none() {
                                let i = cx.tape.draw(module.$list.len() as u64) as usize;
                                module.$list[i].reset_location();
                                res = Some(format!("reset_location() on {} {}", stringify!($list), module.$list[i].get_name()));
                            }
                        )*
                    }
                    res
                }};
            }
            let r = reset_in!(measurement, characteristic, compu_method, group, function, axis_pts, record_layout, compu_vtab);
            if r.is_some() {
                nm.order_disturbed = true;
            }
            r
        }
        12 => {
            // merge a small module (fresh names) into the first module
            // same declared version as the file: merging a newer file upgrades the version, which may turn
            // elements of the old file into deprecated ones (a documented consequence, not a finding)
            let (vno, uno) = file.asap2_version.as_ref().map_or((1, 71), |v| (v.version_no, v.upgrade_no));
            let mut text = format!("ASAP2_VERSION {vno} {uno}\n/begin PROJECT other \"\"\n/begin MODULE other_mod \"\"\n");
            let n = 1 + cx.tape.draw(4);
            for _ in 0..n {
                let name = nm.ident(cx);
                let s = api_string(cx).replace('\\', "/").replace('"', "'").replace(['\n', '\r', '\t'], " ");
                match cx.tape.draw(4) {
                    0 => text.push_str(&format!("/begin MEASUREMENT {name} \"{s}\" UBYTE NO_COMPU_METHOD 0 0 0 255 ECU_ADDRESS 0x1000 /end MEASUREMENT\n")),
                    1 => text.push_str(&format!("/begin COMPU_METHOD {name} \"{s}\" RAT_FUNC \"%6.3\" \"\" COEFFS 0 1 0 0 0 1 /end COMPU_METHOD\n")),
                    2 => text.push_str(&format!("/begin GROUP {name} \"{s}\" ROOT /end GROUP\n")),
                    _ => text.push_str(&format!("/begin CHARACTERISTIC {name} \"{s}\" VALUE 0x2000 rl 0 NO_COMPU_METHOD 0 100 /end CHARACTERISTIC\n")),
                }
            }
            text.push_str("/end MODULE\n/end PROJECT\n");
            match a2lfile::load_from_string(&text, None, false) {
                Ok((mut other, _)) => {
                    file.merge_modules(&mut other);
                    // merged elements keep the line numbers of their source file, which decide their output order
                    // among the elements without position id: list order and output order may differ
                    nm.order_disturbed = true;
                    Some(format!("merge_modules with a module of {n} elements"))
                }
                Err(_) => None,
            }
        }
        10 => {
            // remove the element that is written last in its MODULE (highest position id among the lists below)
            macro_rules! last_of {
                ($best:ident, $($list:ident),*) => { $(
                    if let Some((i, e)) = module.$list.iter().enumerate().max_by_key(|(_, e)| e.get_layout().uid) {
                        let uid = e.get_layout().uid;
                        if uid > $best.0 {
                            $best = (uid, stringify!($list), i);
                        }
                    }
                )* };
            }
            let mut best: (u32, &str, usize) = (0, "", 0);
            last_of!(best, measurement, characteristic, compu_method, group, function, unit, record_layout, compu_vtab, axis_pts, compu_tab, compu_vtab_range, frame, instance, blob, transformer, typedef_axis, typedef_blob, typedef_characteristic, typedef_measurement, typedef_structure);
            if best.0 == 0 {
                return None;
            }
            nm.order_disturbed = true;
            macro_rules! remove_at {
                ($($list:ident),*) => { match best.1 { $( stringify!($list) => module.$list.swap_remove_idx(best.2).map(|e| e.get_name().to_string()), )* _ => None } };
            }
            let name = remove_at!(measurement, characteristic, compu_method, group, function, unit, record_layout, compu_vtab, axis_pts, compu_tab, compu_vtab_range, frame, instance, blob, transformer, typedef_axis, typedef_blob, typedef_characteristic, typedef_measurement, typedef_structure);
            Some(format!("remove the last element of the module: {} {}", best.1, name.unwrap_or_default()))
        }
        0..=2 => Some(push_new(cx, nm, module)),
        3 => {
            let n = module.measurement.len();
            if n == 0 {
                return None;
            }
            let i = cx.tape.draw(n as u64) as usize;
            let s = api_string(cx);
            module.measurement[i].long_identifier = s.clone();
            module.measurement[i].lower_limit = api_float(cx);
            Some(format!("edit MEASUREMENT[{i}].long_identifier = {s:?}, lower_limit"))
        }
        4 => {
            let n = module.characteristic.len();
            if n == 0 {
                return None;
            }
            let i = cx.tape.draw(n as u64) as usize;
            module.characteristic[i].address = cx.tape.draw_u64() as u32;
            module.characteristic[i].upper_limit = api_float(cx);
            Some(format!("edit CHARACTERISTIC[{i}].address, upper_limit"))
        }
        5 => {
            // remove one element from one of the MODULE-level lists (pop, swap_remove by index or by name)
            macro_rules! remove_from {
                ($list:expr, $kind:expr) => {{
                    let n = $list.len();
                    if n == 0 {
                        None
                    } else {
                        let i = cx.tape.draw(n as u64) as usize;
                        nm.order_disturbed = true;
                        let removed = match cx.tape.draw(3) {
                            0 => $list.pop(),
                            1 => $list.swap_remove_idx(i),
                            _ => {
                                let name = $list[i].get_name().to_string();
                                $list.swap_remove(&name)
                            }
                        };
                        Some(format!("remove {} {}", $kind, removed.map(|m| m.get_name().to_string()).unwrap_or_default()))
                    }
                }};
            }
            let start = cx.tape.draw(8);
            let mut res = None;
            for off in 0..8 {
                res = match (start + off) % 8 {
                    0 => remove_from!(module.measurement, "MEASUREMENT"),
                    1 => remove_from!(module.characteristic, "CHARACTERISTIC"),
                    2 => remove_from!(module.compu_method, "COMPU_METHOD"),
                    3 => remove_from!(module.group, "GROUP"),
                    4 => remove_from!(module.function, "FUNCTION"),
                    5 => remove_from!(module.unit, "UNIT"),
                    6 => remove_from!(module.record_layout, "RECORD_LAYOUT"),
                    _ => remove_from!(module.compu_vtab, "COMPU_VTAB"),
                };
                if res.is_some() {
                    break;
                }
            }
            res
        }
        6 => {
            let n = module.measurement.len();
            if n == 0 {
                return None;
            }
            let i = cx.tape.draw(n as u64) as usize;
            let m = &mut module.measurement[i];
            if m.ecu_address.is_some() && cx.tape.chance(1, 2) {
                m.ecu_address = None;
                Some(format!("edit MEASUREMENT[{i}]: remove ECU_ADDRESS"))
            } else {
                m.ecu_address = Some(EcuAddress::new(cx.tape.draw_u64() as u32));
                m.read_write = Some(ReadWrite::new());
                Some(format!("edit MEASUREMENT[{i}]: set ECU_ADDRESS, READ_WRITE"))
            }
        }
        7 => {
            let n = module.measurement.len();
            if n == 0 {
                return None;
            }
            let i = cx.tape.draw(n as u64) as usize;
            let new_name = nm.ident(cx);
            module.measurement.rename_item(i, &new_name);
            Some(format!("rename MEASUREMENT[{i}] -> {new_name}"))
        }
        8 => {
            let n = module.compu_method.len();
            if n == 0 {
                return None;
            }
            let i = cx.tape.draw(n as u64) as usize;
            module.compu_method[i].unit = api_string(cx);
            module.compu_method[i].format = api_string(cx);
            Some(format!("edit COMPU_METHOD[{i}].unit, format"))
        }
        _ => {
            let n = module.group.len();
            if n == 0 {
                return None;
            }
            let i = cx.tape.draw(n as u64) as usize;
            let mut r = RefCharacteristic::new();
            for _ in 0..cx.tape.draw(3) {
                r.identifier_list.push(nm.ident(cx));
            }
            module.group[i].ref_characteristic = Some(r);
            Some(format!("edit GROUP[{i}]: set REF_CHARACTERISTIC"))
        }
    }
}

/// sort every MODULE-level list by name (for comparisons up to list order)
fn has_floating_elements(file: &A2lFile) -> bool {
    for m in &file.project.module {
        macro_rules! any_floating {
            ($($list:ident),*) => { $( if m.$list.iter().any(|e| e.get_layout().uid == 0 && e.get_layout().line > 0) { return true; } )* };
        }
        any_floating!(measurement, characteristic, compu_method, group, function, unit, record_layout, compu_vtab, axis_pts, compu_tab, compu_vtab_range, frame, instance, blob, transformer, typedef_axis, typedef_blob, typedef_characteristic, typedef_measurement, typedef_structure);
    }
    false
}

pub fn canonicalize_lists(file: &mut A2lFile) {
    for m in &mut file.project.module {
        macro_rules! canon {
            ($($list:ident),*) => { $( m.$list.sort_by(|x, y| x.get_name().cmp(y.get_name())); )* };
        }
        canon!(measurement, characteristic, compu_method, group, function, unit, record_layout, compu_vtab, axis_pts, compu_tab, compu_vtab_range, frame, instance, blob, transformer, typedef_axis, typedef_blob, typedef_characteristic, typedef_measurement, typedef_structure);
    }
}

/// canonical rendering of IF_DATA content: values only (no line / uid / offsets), map keys sorted
pub fn ifdata_repr(d: &GenericIfData, out: &mut String) {
    use std::fmt::Write;
    match d {
        GenericIfData::None => out.push_str("None"),
        GenericIfData::Char(_, v) => write!(out, "Char{v:?}").unwrap(),
        GenericIfData::Int(_, v) => write!(out, "Int{v:?}").unwrap(),
        GenericIfData::Long(_, v) => write!(out, "Long{v:?}").unwrap(),
        GenericIfData::Int64(_, v) => write!(out, "Int64{v:?}").unwrap(),
        GenericIfData::UChar(_, v) => write!(out, "UChar{v:?}").unwrap(),
        GenericIfData::UInt(_, v) => write!(out, "UInt{v:?}").unwrap(),
        GenericIfData::ULong(_, v) => write!(out, "ULong{v:?}").unwrap(),
        GenericIfData::UInt64(_, v) => write!(out, "UInt64{v:?}").unwrap(),
        GenericIfData::Float(_, v) => write!(out, "Float({v:?})").unwrap(),
        GenericIfData::Double(_, v) => write!(out, "Double({v:?})").unwrap(),
        GenericIfData::String(_, v) => write!(out, "String({v:?})").unwrap(),
        GenericIfData::EnumItem(_, v) => write!(out, "Enum({v})").unwrap(),
        GenericIfData::Array(items) | GenericIfData::Sequence(items) | GenericIfData::Struct(_, _, items) | GenericIfData::Block { items, .. } => {
            out.push_str(match d {
                GenericIfData::Array(_) => "Array[",
                GenericIfData::Sequence(_) => "Seq[",
                GenericIfData::Struct(..) => "Struct[",
                _ => "Block[",
            });
            for (i, it) in items.iter().enumerate() {
                if i > 0 {
                    out.push_str(", ");
                }
                ifdata_repr(it, out);
            }
            out.push(']');
        }
        GenericIfData::TaggedStruct(map) | GenericIfData::TaggedUnion(map) => {
            out.push_str(if matches!(d, GenericIfData::TaggedStruct(_)) { "TS{" } else { "TU{" });
            let mut keys: Vec<&String> = map.keys().collect();
            keys.sort();
            for k in keys {
                for item in &map[k] {
                    write!(out, "{}{}:", if item.is_block { "block " } else { "" }, item.tag).unwrap();
                    ifdata_repr(&item.data, out);
                    out.push_str("; ");
                }
            }
            out.push('}');
        }
    }
}

fn ifdata_list_diff(a: &[IfData], b: &[IfData]) -> Option<String> {
    for (i, (x, y)) in a.iter().zip(b.iter()).enumerate() {
        if x != y {
            let mut rx = String::new();
            let mut ry = String::new();
            if let Some(d) = &x.ifdata_items {
                ifdata_repr(d, &mut rx);
            }
            if let Some(d) = &y.ifdata_items {
                ifdata_repr(d, &mut ry);
            }
            let pos = rx.bytes().zip(ry.bytes()).position(|(p, q)| p != q).unwrap_or(rx.len().min(ry.len()));
            let mut s = pos.saturating_sub(80);
            while !rx.is_char_boundary(s) {
                s -= 1;
            }
            let mut s2 = pos.saturating_sub(80).min(ry.len());
            while !ry.is_char_boundary(s2) {
                s2 -= 1;
            }
            return Some(format!("IF_DATA[{i}] valid {} vs {}: ...{} vs ...{}", x.ifdata_valid, y.ifdata_valid, crate::runner::clip(&rx[s..], 260), crate::runner::clip(&ry[s2..], 260)));
        }
    }
    None
}

/// where two models differ (best effort, for the violation detail)
/// Debug rendering of an element with every `IfData { .. }` part cut out (IF_DATA trees carry line numbers and position
/// ids in their Debug output; they are compared separately) and the sign of a zero dropped
fn debug_without_ifdata<T: std::fmt::Debug>(x: &T) -> String {
    let d = format!("{x:?}");
    if !d.contains("IfData {") {
        return if d.contains("-0.0") { d.replace("-0.0", "0.0") } else { d };
    }
    let mut out = String::with_capacity(d.len());
    let b = d.as_bytes();
    let mut i = 0;
    while i < b.len() {
        if b[i] == b'I' && d[i..].starts_with("IfData {") {
            // skip to the matching brace; braces inside string literals of the Debug output are escaped as they are,
            // so strings are skipped as a whole
            let mut depth = 0i32;
            let mut j = i;
            let mut in_str = false;
            while j < b.len() {
                let c = b[j];
                if in_str {
                    if c == b'\\' {
                        j += 1;
                    } else if c == b'"' {
                        in_str = false;
                    }
                } else if c == b'"' {
                    in_str = true;
                } else if c == b'{' {
                    depth += 1;
                } else if c == b'}' {
                    depth -= 1;
                    if depth == 0 {
                        break;
                    }
                }
                j += 1;
            }
            out.push_str("IfData");
            i = j + 1;
        } else {
            let ch = d[i..].chars().next().unwrap();
            out.push(ch);
            i += ch.len_utf8();
        }
    }
    out.replace("-0.0", "0.0")
}

/// an equality that does not go through the crate's PartialEq: element by element Debug renderings (IF_DATA excluded).
/// Returns the first difference. Used as a cross-check when PartialEq says "equal".
pub fn independent_diff(a: &A2lFile, b: &A2lFile) -> Option<String> {
    let top = |f: &A2lFile| format!("{:?}|{:?}|{:?}|{:?}|{:?}", f.asap2_version, f.a2ml_version, f.project.header, f.project.get_name(), f.project.long_identifier);
    if debug_without_ifdata(&top(a)) != debug_without_ifdata(&top(b)) {
        return Some("top-level items".to_string());
    }
    if a.project.module.len() != b.project.module.len() {
        return Some("number of modules".to_string());
    }
    for (ma, mb) in a.project.module.iter().zip(b.project.module.iter()) {
        let single = |m: &Module| format!("{:?}|{:?}|{:?}|{:?}|{:?}|{:?}|{:?}", m.get_name(), m.long_identifier, m.a2ml, m.mod_common, m.mod_par, m.variant_coding, m.user_rights);
        if debug_without_ifdata(&single(ma)) != debug_without_ifdata(&single(mb)) {
            return Some(format!("MODULE {}: name / A2ML / MOD_COMMON / MOD_PAR / VARIANT_CODING / USER_RIGHTS", ma.get_name()));
        }
        macro_rules! lists {
            ($($f:ident),*) => { $(
                if ma.$f.len() != mb.$f.len() {
                    return Some(format!("{}: {} vs {} elements", stringify!($f), ma.$f.len(), mb.$f.len()));
                }
                for (x, y) in ma.$f.iter().zip(mb.$f.iter()) {
                    let dx = debug_without_ifdata(x);
                    let dy = debug_without_ifdata(y);
                    if dx != dy {
                        let pos = dx.bytes().zip(dy.bytes()).position(|(p, q)| p != q).unwrap_or(dx.len().min(dy.len()));
                        let mut s1 = pos.saturating_sub(60);
                        while !dx.is_char_boundary(s1) { s1 -= 1; }
                        let mut s2 = pos.saturating_sub(60).min(dy.len());
                        while !dy.is_char_boundary(s2) { s2 -= 1; }
                        return Some(format!("{} {}: ...{} vs ...{}", stringify!($f), x.get_name(), crate::runner::clip(&dx[s1..], 160), crate::runner::clip(&dy[s2..], 160)));
                    }
                }
            )* };
        }
        lists!(measurement, characteristic, compu_method, group, function, unit, record_layout, compu_vtab, axis_pts, compu_tab, compu_vtab_range, frame, instance, blob, transformer, typedef_axis, typedef_blob, typedef_characteristic, typedef_measurement, typedef_structure);
    }
    None
}

pub fn model_diff(a: &A2lFile, b: &A2lFile) -> String {
    let mut out = Vec::new();
    if a.asap2_version != b.asap2_version {
        out.push("ASAP2_VERSION".to_string());
    }
    if a.a2ml_version != b.a2ml_version {
        out.push("A2ML_VERSION".to_string());
    }
    if a.project.header != b.project.header {
        out.push("PROJECT.HEADER".to_string());
    }
    if a.project.get_name() != b.project.get_name() || a.project.long_identifier != b.project.long_identifier {
        out.push("PROJECT name/long_identifier".to_string());
    }
    if a.project.module.len() != b.project.module.len() {
        out.push(format!("number of modules {} vs {}", a.project.module.len(), b.project.module.len()));
    }
    macro_rules! cmp_lists {
        ($ma:expr, $mb:expr, $($f:ident),*) => { $(
            if $ma.$f != $mb.$f {
                let la = $ma.$f.len();
                let lb = $mb.$f.len();
                if la != lb {
                    out.push(format!("{}: {} vs {} elements", stringify!($f), la, lb));
                } else {
                    for (i, (x, y)) in $ma.$f.iter().zip($mb.$f.iter()).enumerate() {
                        if x != y {
                            let dx = format!("{:?}", x);
                            let dy = format!("{:?}", y);
                            let pos = dx.bytes().zip(dy.bytes()).position(|(p, q)| p != q).unwrap_or(0);
                            let start = pos.saturating_sub(60);
                            let mut s = start;
                            while !dx.is_char_boundary(s) { s -= 1; }
                            let mut s2 = start.min(dy.len());
                            while !dy.is_char_boundary(s2) { s2 -= 1; }
                            out.push(format!("{}[{}]: ...{} vs ...{}", stringify!($f), i, crate::runner::clip(&dx[s..], 160), crate::runner::clip(&dy[s2..], 160)));
                            break;
                        }
                    }
                }
            }
        )* }
    }
    for (ma, mb) in a.project.module.iter().zip(b.project.module.iter()) {
        if ma.get_name() != mb.get_name() || ma.long_identifier != mb.long_identifier {
            out.push("MODULE name/long_identifier".to_string());
        }
        if ma.a2ml != mb.a2ml {
            out.push(format!("A2ML: {:?} vs {:?}", ma.a2ml.as_ref().map(|x| crate::runner::clip(&x.a2ml_text, 200)), mb.a2ml.as_ref().map(|x| crate::runner::clip(&x.a2ml_text, 200))));
        }
        if ma.mod_common != mb.mod_common {
            out.push("MOD_COMMON".to_string());
        }
        if ma.mod_par != mb.mod_par {
            out.push("MOD_PAR".to_string());
        }
        if ma.variant_coding != mb.variant_coding {
            out.push("VARIANT_CODING".to_string());
        }
        if let Some(d) = ifdata_list_diff(&ma.if_data, &mb.if_data) {
            out.push(format!("MODULE {d}"));
        }
        macro_rules! ifdata_in {
            ($($f:ident),*) => { $(
                for (x, y) in ma.$f.iter().zip(mb.$f.iter()) {
                    if x.if_data != y.if_data {
                        if let Some(d) = ifdata_list_diff(&x.if_data, &y.if_data) {
                            out.push(format!("{} {}: {d}", stringify!($f), x.get_name()));
                        }
                    }
                }
            )* };
        }
        ifdata_in!(axis_pts, blob, characteristic, frame, function, group, instance, measurement);
        cmp_lists!(ma, mb, axis_pts, blob, characteristic, compu_method, compu_tab, compu_vtab, compu_vtab_range, frame, function, group, if_data, instance, measurement, record_layout, transformer, typedef_axis, typedef_blob, typedef_characteristic, typedef_measurement, typedef_structure, unit, user_rights);
    }
    if out.is_empty() {
        "models differ (no top-level difference located)".to_string()
    } else {
        out.join("; ")
    }
}

// ------------------------------------------------------------------------------------------------

fn encode_env(text: &str, kind: u64) -> Vec<u8> {
    match kind {
        0 => {
            let mut v = vec![0xEF, 0xBB, 0xBF];
            v.extend_from_slice(text.as_bytes());
            v
        }
        1 => {
            let mut v = vec![0xFF, 0xFE];
            for u in text.encode_utf16() {
                v.extend_from_slice(&u.to_le_bytes());
            }
            v
        }
        _ => {
            let mut v = vec![0xFE, 0xFF];
            for u in text.encode_utf16() {
                v.extend_from_slice(&u.to_be_bytes());
            }
            v
        }
    }
}

fn to_crlf(text: &str) -> String {
    text.replace("\r\n", "\n").replace('\n', "\r\n")
}

impl Scenario for C01Cycles {
    fn property(&self) -> &'static str {
        "C01"
    }
    fn name(&self) -> &'static str {
        if self.faults {
            "cycles_with_io_faults"
        } else {
            "cycles_fault_free"
        }
    }

    fn run(&self, cx: &mut Cx) -> Result<(), Violation> {
        let fs = SimFs::new("/work", cx.tape.draw_u64());
        fs.install();
        let mut nm = Namer { n: 0, modern: false, order_disturbed: false, reserved_order_free: false, edit_violation: None };
        let max_k = if cx.tier == Tier::Thorough { 16 } else { 6 };
        let k = 1 + cx.tape.draw(max_k);
        // entry: 0 = load_from_string, 1 = load_fragment, 2 = load(path), 3 = built through the API, 4 = load_fragment_file(path)
        let entry = cx.tape.draw(5);
        // files are used for Save/Reload in entry 2 always, otherwise half of the time
        let use_files = self.faults || entry == 2 || cx.tape.chance(1, 2);
        let chunking = match cx.tape.draw(5) {
            0 => Chunking::Whole,
            1 => Chunking::OneByte,
            2 => Chunking::Random(4096),
            3 => Chunking::Random(7),
            _ => Chunking::Fixed(1 + cx.tape.draw(64) as usize),
        };
        fs.set_chunking(chunking);
        // load_fragment always parses non-strict: all later loads of that history use the same mode, because
        // strict and non-strict loading may legitimately build different models from one text (C06)
        let strict = cx.tape.chance(1, 2) && entry != 1 && entry != 4;
        let mut feats = Features::default();
        let mut version_lie = false;
        let same_path = cx.tape.chance(1, 2);
        if same_path {
            cx.probe("saves-over-the-same-file");
        }
        // a built-in A2ML specification (the a2ml_spec argument) used for every load of this history: the document
        // then has no A2ML block of its own and its IF_DATA follows the built-in definition
        let builtin_def = if entry != 3 && cx.tape.chance(1, 5) { Some(crate::a2mlgen::gen_a2ml(&mut cx.tape)) } else { None };
        let builtin: Option<String> = builtin_def.as_ref().map(|d| d.text.clone());
        if builtin.is_some() {
            cx.probe("built-in-a2ml-specification");
        }

        // ---- initial model
        let mut model: A2lFile = match entry {
            3 => {
                cx.event("entry: model built through new()/T::new()/push");
                build_api_model(cx, &mut nm)
            }
            1 | 4 => {
                let mut opts = GenOpts::swarm(&mut cx.tape);
                    opts.shuffle_positions = cx.tape.chance(1, 5);
                let lo = LayoutOpts::swarm(&mut cx.tape);
                if builtin_def.is_some() {
                    opts.allow_a2ml = false;
                    opts.allow_ifdata = true;
                }
                let mut g = DocGen::new(&mut cx.tape, opts);
                g.a2ml_variant = builtin_def.clone();
                let nodes = g.fragment();
                let f1 = g.feats.clone();
                let r = render_nodes(&mut cx.tape, &nodes, &lo, 2);
                feats = merge_feats(&f1, &r.feats);
                cx.event_lazy("entry: load_fragment", || crate::runner::clip(&r.text, 3000));
                let loaded = if entry == 4 {
                    fs.put("/work/fragment.a2l", r.text.as_bytes());
                    fs.begin_op(BTreeMap::new(), false);
                    sut::load_fragment_path(cx, "O1", "/work/fragment.a2l", builtin.clone(), r.text.len())?
                } else {
                    sut::load_fragment(cx, "O1", &r.text, builtin.clone())?
                };
                match loaded {
                    Ok(module) => {
                        let mut f = a2lfile::new();
                        f.project.module = ItemList::new();
                        f.project.module.push(module);
                        f
                    }
                    Err(e) => {
                        cx.vacuous = true;
                        cx.event(&format!("initial input not accepted ({e}): vacuous"));
                        return Ok(());
                    }
                }
            }
            _ => {
                let (text, f) = {
                    let mut opts = GenOpts::swarm(&mut cx.tape);
                    opts.shuffle_positions = cx.tape.chance(1, 5);
                    let lo = LayoutOpts::swarm(&mut cx.tape);
                    if builtin_def.is_some() {
                        opts.allow_a2ml = false;
                        opts.allow_ifdata = true;
                    }
                    let mut g = DocGen::new(&mut cx.tape, opts);
                    g.a2ml_variant = builtin_def.clone();
                    if !strict && g.t.chance(1, 12) {
                        g.opts.unusable_a2ml = true;
                    }
                    if !strict && g.t.chance(1, 10) {
                        // the header declares another version than the content was written for: non-strict loading
                        // accepts that with diagnostics, and what was accepted must save and reload
                        g.declared = Some(*g.t.pick(&crate::gen::VERSIONS));
                        version_lie = g.declared != Some(g.version);
                    }
                    let nodes = g.document();
                    let f1 = g.feats.clone();
                    let r = render_nodes(&mut cx.tape, &nodes, &lo, 0);
                    (r.text, merge_feats(&f1, &r.feats))
                };
                feats = f;
                if version_lie {
                    cx.probe("declared-version-differs-from-content");
                }
                if feats.unusable_a2ml {
                    cx.probe("a2ml-block-without-usable-definition");
                }
                cx.event_lazy(if entry == 2 { "entry: load(/work/t0.a2l)" } else { "entry: load_from_string" }, || crate::runner::clip(&text, 3000));
                let res = if entry == 2 {
                    fs.put("/work/t0.a2l", text.as_bytes());
                    fs.begin_op(BTreeMap::new(), false);
                    sut::load_path(cx, "O1", "/work/t0.a2l", builtin.clone(), strict, text.len())?
                } else {
                    sut::load_str(cx, "O1", &text, builtin.clone(), strict)?
                };
                match res {
                    Ok((f, _)) => f,
                    Err(e) => {
                        cx.vacuous = true;
                        cx.event(&format!("initial input not accepted ({e}): vacuous"));
                        return Ok(());
                    }
                }
            }
        };
        nm.modern = model.asap2_version.as_ref().is_some_and(|v| v.version_no > 1 || v.upgrade_no >= 60);
        if feats.float_overflow {
            cx.trigger("float-literal-overflows-to-infinity");
        }
        if feats.multiline_comments {
            cx.trigger("multi-line-block-comment");
        }
        nm.reserved_order_free = feats.positions_out_of_order;
        if feats.positions_out_of_order {
            cx.probe("position-restricted-siblings-out-of-order");
        }
        if feats.multi_a2ml {
            // known finding: every A2ML block of a file stays active for all later IF_DATA
            cx.trigger("more-than-one-a2ml-definition-active");
            cx.probe("file-with-more-than-one-a2ml-block");
        }
        if feats.crlf && feats.a2ml {
            cx.trigger("crlf-with-a2ml");
        }

        let mut prev_text: Option<String> = None; // W_{i-1}, valid for O3 only if nothing happened in between
        let mut env_kinds = String::new();
        let mut cycles_done = 0u64;
        let mut edits_total = 0u32;
        cx.tape.begin_group();
        for cycle in 1..=k {
            cx.tape.end_group();
            cx.tape.begin_group();
            // ---- edits
            let mut edited = false;
            let nedits = if cycle == 1 && entry != 3 { cx.tape.draw(2) } else { *cx.tape.pick(&[0u64, 0, 1, 3]) };
            for _ in 0..nedits {
                cx.tape.begin_group();
                // elements without position id that still carry the line of their source file (after reset_location or
                // merge_modules, when sort_new_items found no placed element of their kind) are written *behind* a
                // newly pushed element (line 0) although they stand in front of it in the list
                let floating = has_floating_elements(&model);
                let edit = apply_edit(cx, &mut nm, &mut model);
                cx.tape.end_group();
                if floating && edit.as_deref().is_some_and(|d| d.starts_with("push")) {
                    nm.order_disturbed = true;
                }
                if let Some(msg) = nm.edit_violation.take() {
                    return Err(cx.fail("O2", "merge_includes-changed-a-model-without-includes", format!("cycle {cycle}: {msg}")));
                }
                if let Some(desc) = edit {
                    cx.event(&format!("cycle {cycle}: {desc}"));
                    edited = true;
                    edits_total += 1;
                }
            }
            // ---- save
            let text = sut::write_str(cx, "no-panic", &model)?;
            cx.digest_bytes(text.as_bytes());
            cx.event_lazy(&format!("cycle {cycle}: save ({} bytes)", text.len()), || crate::runner::clip(&text, 1500));
            // O3: textual fixpoint
            if let Some(prev) = &prev_text {
                if !edited && *prev != text {
                    return Err(cx.fail("O3", "text-not-a-fixpoint", format!("cycle {cycle}: writing the reloaded model gives a different text ({} vs {} bytes); first difference at {}", prev.len(), text.len(), sut::first_diff(prev, &text))));
                }
            }
            // half of the histories save over the same file every time, as an editor does
            let path = if same_path { "/work/save.a2l".to_string() } else { format!("/work/save{cycle}.a2l") };
            let mut reload_bytes: Option<Vec<u8>> = None;
            let mut banner_used = false;
            if use_files {
                let banner = if cx.tape.chance(1, 2) { Some(cx.tape.pick_str(&["written by a2lsim", "", "Größe", "two\nlines"]).to_string()) } else { None };
                banner_used = banner.is_some();
                if banner.as_deref().is_some_and(|b| b.contains('\n')) {
                    cx.trigger("multi-line-block-comment");
                }
                // fault plan for the save
                let mut plan = BTreeMap::new();
                if self.faults && cx.tape.chance(1, 3) {
                    let f = match cx.tape.draw(3) {
                        0 => Fault::WriteErr(EACCES),
                        1 => Fault::WriteErr(ENOSPC),
                        _ => Fault::WriteTorn(cx.tape.draw(text.len() as u64 + 1) as usize),
                    };
                    plan.insert(0usize, f);
                }
                let before = fs.get(&path);
                let model_before = sut::write_str(cx, "no-panic", &model)?;
                fs.begin_op(plan.clone(), false);
                let res = sut::write_path(cx, "no-panic", &model, &path, banner.as_deref())?;
                let fired = fs.fired();
                for (_, f) in &fired {
                    cx.fault_fired(f.name());
                }
                match (&res, fired.first()) {
                    (Ok(()), None) => {
                        // O5: the file is the text; with a banner: a comment holding the banner, then the text.
                        // (The exact spelling of the banner comment is not part of the property and is not checked.)
                        let got = fs.get(&path).unwrap_or_default();
                        let ok = match &banner {
                            None => got == text.as_bytes(),
                            Some(b) => {
                                got.ends_with(text.as_bytes()) && {
                                    let head = String::from_utf8_lossy(&got[..got.len() - text.len()]).to_string();
                                    let h = head.trim();
                                    // every line of the banner stands in the comment (a multi-line banner may be laid out
                                    // line by line, with or without decoration)
                                    h.starts_with("/*") && h.ends_with("*/") && b.lines().all(|l| h.contains(l.trim()))
                                }
                            }
                        };
                        if !ok {
                            return Err(cx.fail("O5", "file-differs-from-text", format!("cycle {cycle}: write({path}) returned Ok but the file ({} bytes) is not [banner comment +] write_to_string() ({} bytes)", got.len(), text.len())));
                        }
                        reload_bytes = Some(got);
                    }
                    (Ok(()), Some((_, f))) => {
                        return Err(cx.fail("F1", "save-error-swallowed", format!("cycle {cycle}: the file system failed the save with {} but A2lFile::write returned Ok", f.name())));
                    }
                    (Err(e), Some((_, f))) => {
                        // which error value is returned is not part of the property; that the failure is reported is
                        let _ = e;
                        // the model is unchanged by a failed save
                        let model_after = sut::write_str(cx, "no-panic", &model)?;
                        if model_after != model_before {
                            return Err(cx.fail("F1", "model-changed-by-failed-save", format!("cycle {cycle}: {}", sut::first_diff(&model_before, &model_after))));
                        }
                        cx.event(&format!("cycle {cycle}: save failed as injected ({}): {e}", f.name()));
                        if let Fault::WriteTorn(_) = f {
                            // a torn file must be loadable without panic (Ok or Err)
                            let total = fs.get(&path).map_or(0, |d| d.len());
                            fs.begin_op(BTreeMap::new(), false);
                            let r = sut::load_path(cx, "F2", &path, builtin.clone(), strict, total)?;
                            cx.event(&format!("cycle {cycle}: loading the torn file -> {}", if r.is_ok() { "Ok".to_string() } else { "Err".to_string() }));
                            cx.probe("torn-save-then-load");
                        } else if before != fs.get(&path) {
                            return Err(cx.fail("F1", "file-changed-by-rejected-save", format!("cycle {cycle}: {} must not touch the file", f.name())));
                        }
                        // retry the save without fault: the history continues
                        fs.begin_op(BTreeMap::new(), false);
                        match sut::write_path(cx, "no-panic", &model, &path, banner.as_deref())? {
                            Ok(()) => reload_bytes = fs.get(&path),
                            Err(e) => return Err(cx.fail("O5", "save-failed-without-fault", format!("cycle {cycle}: {e}"))),
                        }
                    }
                    (Err(e), None) => {
                        return Err(cx.fail("O5", "save-failed-without-fault", format!("cycle {cycle}: {e}")));
                    }
                }
            }

            // ---- O4: the text is a function of the model, not of the hash order
            if cycle == 1 || cx.tape.chance(1, 4) {
                let k0 = cx.tape.draw_u64();
                let k1 = cx.tape.draw_u64();
                let src = text.clone();
                let spec2 = builtin.clone();
                let other = with_hash_keys(k0, k1, move || {
                    std::panic::catch_unwind(|| match a2lfile::load_from_string(&src, spec2.clone(), false) {
                        Ok((f, _)) => Some(f.write_to_string()),
                        Err(_) => None,
                    })
                });
                cx.evals += 1;
                if let Ok(Some(other_text)) = other {
                    // compared with the text written by *this* thread from its own reload, below
                    cx.digest_bytes(other_text.as_bytes());
                    let here = match sut::load_str(cx, "O1", &text, builtin.clone(), false)? {
                        Ok((f, _)) => Some(sut::write_str(cx, "no-panic", &f)?),
                        Err(_) => None,
                    };
                    if let Some(here_text) = here {
                        if here_text != other_text {
                            return Err(cx.fail("O4", "text-depends-on-hash-order", format!("cycle {cycle}: the same text loaded and written under two hash seeds gives different output; first difference at {}", sut::first_diff(&here_text, &other_text))));
                        }
                        cx.probe("hash-order-cross-check");
                    }
                }
            }

            // ---- environment: what another party may legitimately do to a text file
            let mut env_applied = false;
            let mut reload_text = text.clone();
            if cx.tape.chance(1, 6) {
                match cx.tape.draw(if use_files { 4 } else { 1 }) {
                    0 => {
                        reload_text = to_crlf(&text);
                        if let Some(b) = &reload_bytes {
                            reload_bytes = Some(to_crlf(&String::from_utf8_lossy(b)).into_bytes());
                        }
                        env_kinds.push_str("crlf,");
                        cx.event(&format!("cycle {cycle}: environment converts line ends to CRLF"));
                    }
                    kind => {
                        if let Some(b) = &reload_bytes {
                            let t = String::from_utf8_lossy(b).to_string();
                            reload_bytes = Some(encode_env(&t, kind - 1));
                        }
                        env_kinds.push_str(["utf8bom,", "utf16le,", "utf16be,"][(kind - 1) as usize]);
                        cx.event(&format!("cycle {cycle}: environment re-encodes the file as {}", ["UTF-8+BOM", "UTF-16LE+BOM", "UTF-16BE+BOM"][(kind - 1) as usize]));
                    }
                }
                env_applied = true;
            }

            // ---- reload
            let reloaded = if use_files {
                let bytes = reload_bytes.clone().unwrap_or_else(|| reload_text.clone().into_bytes());
                fs.put(&path, &bytes);
                let mut plan = BTreeMap::new();
                let mut hard = false;
                if self.faults && cx.tape.chance(1, 2) {
                    // call 0 = open, 1 = metadata, 2.. = reads
                    let f = match cx.tape.draw(9) {
                        0 => (0usize, Fault::OpenErr(ENOENT)),
                        1 => (0, Fault::OpenErr(*cx.tape.pick(&[EACCES, EIO, EMFILE]))),
                        2 => (1, Fault::MetaErr),
                        3 => (1, Fault::MetaSize(cx.tape.draw(5) as u8)),
                        4 | 5 => (2 + cx.tape.draw(3) as usize, Fault::ReadShort(1 + cx.tape.draw(16) as usize)),
                        6 | 7 => (2 + cx.tape.draw(3) as usize, Fault::ReadEintr),
                        _ => (2 + cx.tape.draw(2) as usize, Fault::ReadEio),
                    };
                    hard = !f.1.is_benign();
                    plan.insert(f.0, f.1);
                }
                fs.begin_op(plan, false);
                let r = sut::load_path(cx, "O1", &path, builtin.clone(), strict, bytes.len())?;
                let fired = fs.fired();
                for (_, f) in &fired {
                    cx.fault_fired(f.name());
                }
                let hard_fired = hard && !fired.is_empty();
                if hard_fired {
                    let f = &fired[0].1;
                    match &r {
                        Ok(_) => return Err(cx.fail("F3", "read-error-swallowed", format!("cycle {cycle}: the file system failed the read with {} but load returned Ok", f.name()))),
                        Err(e) => {
                            cx.event(&format!("cycle {cycle}: reload failed as injected ({}): {e}", f.name()));
                        }
                    }
                    // retry without fault
                    fs.begin_op(BTreeMap::new(), false);
                    sut::load_path(cx, "O1", &path, builtin.clone(), strict, bytes.len())?
                } else {
                    r
                }
            } else {
                sut::load_str(cx, "O1", &reload_text, builtin.clone(), strict)?
            };
            let (m2, msgs) = match reloaded {
                Ok(x) => x,
                Err(e) => {
                    if env_applied {
                        cx.probe("environment-output-rejected");
                        cx.event(&format!("cycle {cycle}: the text produced by the environment step is not accepted ({e}); the property does not cover it, history ends"));
                        break;
                    }
                    return Err(cx.fail("O1", "reload-failed", format!("cycle {cycle}: text written by the library is rejected by the library: {e}")));
                }
            };
            let _ = msgs;
            // ---- O2: model equality
            if !env_applied {
                let equal = guarded(cx, "no-panic", "model comparison", || {
                    if nm.reserved_order_free {
                        let mut a = model.clone();
                        let mut b = m2.clone();
                        for file in [&mut a, &mut b] {
                            for m in &mut file.project.module {
                                for rl in &mut m.record_layout {
                                    rl.reserved.sort_by_key(|r| r.position);
                                }
                                if nm.order_disturbed {
                                    macro_rules! canon {
                                        ($($list:ident),*) => { $( m.$list.sort_by(|x, y| x.get_name().cmp(y.get_name())); )* };
                                    }
                                    canon!(measurement, characteristic, compu_method, group, function, unit, record_layout, compu_vtab, axis_pts, compu_tab, compu_vtab_range, frame, instance, blob, transformer, typedef_axis, typedef_blob, typedef_characteristic, typedef_measurement, typedef_structure);
                                }
                            }
                        }
                        a == b
                    } else if nm.order_disturbed {
                        // swap_remove changed the list order; the writer orders by position ids: compare up to the order of that list
                        let mut a = model.clone();
                        let mut b = m2.clone();
                        for file in [&mut a, &mut b] {
                            for m in &mut file.project.module {
                                macro_rules! canon {
                                    ($($list:ident),*) => { $( m.$list.sort_by(|x, y| x.get_name().cmp(y.get_name())); )* };
                                }
                                canon!(measurement, characteristic, compu_method, group, function, unit, record_layout, compu_vtab, axis_pts, compu_tab, compu_vtab_range, frame, instance, blob, transformer, typedef_axis, typedef_blob, typedef_characteristic, typedef_measurement, typedef_structure);
                            }
                        }
                        a == b
                    } else {
                        m2 == model
                    }
                })?;
                let strict_compare = !nm.order_disturbed && !nm.reserved_order_free;
                nm.order_disturbed = false;
                if !equal {
                    let d = model_diff(&model, &m2);
                    return Err(cx.fail("O2", "reloaded-model-differs", format!("cycle {cycle}: load(write(M)) != M: {d}")));
                }
                // (rendering whole models is slow: the first cycle and every fourth one after it)
                if strict_compare && (cycle == 1 || cx.tape.chance(1, 4)) {
                    // cross-check that does not rely on the crate's own PartialEq implementations
                    if let Some(d) = guarded(cx, "no-panic", "Debug rendering of the models", || independent_diff(&model, &m2))? {
                        return Err(cx.fail("O2", "equal-by-PartialEq-but-Debug-renderings-differ", format!("cycle {cycle}: the crate's == calls the reloaded model equal, the Debug renderings (IF_DATA excluded) differ: {d}")));
                    }
                }
                // the file written with a banner is not the text itself (the banner line shifts everything): new baseline
                prev_text = if banner_used { None } else { Some(text) };
            } else {
                nm.order_disturbed = false;
                // the environment step resets the baseline: the next save starts a new fixpoint chain
                prev_text = None;
            }
            model = m2;
            cycles_done += 1;
        }

        if cycles_done >= 1 {
            let interesting = feats.comments || feats.non_ascii || feats.hex_or_exp || feats.if_data || entry == 3 || edits_total > 0;
            if interesting {
                cx.nontrivial = true;
            }
            let fired: Vec<String> = cx.faults.keys().cloned().collect();
            cx.sig(&format!("entry{entry}|files{use_files}|k{}|{}|env:{env_kinds}|edits{}|faults:{}|hash{}", cycles_done.min(8), feats_string(&feats), edits_total.min(3), fired.join(","), cx.hash_order_class % 4));
        }
        SimFs::uninstall();
        Ok(())
    }
}


/// replays a fixed document (a known finding recorded as literal input): k plain load/write cycles with O1-O3
pub struct C01FixedInput;

impl Scenario for C01FixedInput {
    fn property(&self) -> &'static str {
        "C01"
    }
    fn name(&self) -> &'static str {
        "fixed_input_cycles"
    }
    fn run(&self, cx: &mut Cx) -> Result<(), Violation> {
        let Some(text) = crate::runner::FIXED_INPUT.read().unwrap().clone() else {
            cx.vacuous = true;
            return Ok(());
        };
        if text.matches("/begin A2ML").count() >= 2 {
            cx.trigger("more-than-one-a2ml-definition-active");
        }
        // a first line "#edit:sort" asks for sort() between the first load and the first save
        let (edit_sort, text) = match text.strip_prefix("#edit:sort\n") {
            Some(rest) => (true, rest.to_string()),
            None => (false, text),
        };
        cx.event_lazy("fixed input", || text.clone());
        // a first line "#api-a2ml" asks for a model built through the API whose A2ML block holds the rest of the input
        let mut model = if let Some(a2ml_text) = text.strip_prefix("#api-a2ml\n") {
            if !a2ml_text.starts_with(|c: char| c.is_ascii_whitespace()) || !a2ml_text.ends_with(|c: char| c.is_ascii_whitespace()) {
                cx.trigger("api-built-a2ml-text-without-surrounding-white-space");
            }
            let mut f = a2lfile::new();
            f.project.module[0].a2ml = Some(A2ml::new(a2ml_text.to_string()));
            f
        } else {
            match sut::load_str(cx, "O1", &text, None, false)? {
                Ok((m, _)) => m,
                Err(e) => {
                    cx.vacuous = true;
                    cx.event(&format!("input not accepted: {e}"));
                    return Ok(());
                }
            }
        };
        if edit_sort {
            let before: Vec<String> = model.project.module.iter().map(|m| m.get_name().to_string()).collect();
            guarded(cx, "no-panic", "sort()", || model.sort())?;
            let after: Vec<String> = model.project.module.iter().map(|m| m.get_name().to_string()).collect();
            if before != after && model.project.module.iter().any(|m| m.a2ml.is_some()) {
                cx.trigger("sort()-reordered-the-modules-of-a-file-with-a2ml");
            }
            cx.event("edit: sort()");
        }
        let mut prev: Option<String> = None;
        for cycle in 1..=3 {
            let w = sut::write_str(cx, "no-panic", &model)?;
            cx.event_lazy(&format!("cycle {cycle}: save"), || w.clone());
            if let Some(p) = &prev {
                if *p != w {
                    return Err(cx.fail("O3", "text-not-a-fixpoint", format!("cycle {cycle}: {}", sut::first_diff(p, &w))));
                }
            }
            let m2 = match sut::load_str(cx, "O1", &w, None, false)? {
                Ok((m, _)) => m,
                Err(e) => return Err(cx.fail("O1", "reload-failed", format!("cycle {cycle}: {e}"))),
            };
            if m2 != model {
                return Err(cx.fail("O2", "reloaded-model-differs", format!("cycle {cycle}: load(write(M)) != M: {}", model_diff(&model, &m2))));
            }
            model = m2;
            prev = Some(w);
        }
        cx.nontrivial = true;
        Ok(())
    }
}


/// O4 on models that only the API can build: IF_DATA whose tagged items were created through the public API
/// (uid 0, line 0) live in a std HashMap; the written text must not depend on that map's iteration order.
pub struct C01HashOrder;

fn api_ifdata(cx: &mut Cx) -> (IfData, usize) {
    use std::collections::HashMap;
    let ntags = 2 + cx.tape.draw(7) as usize;
    let mut map: HashMap<String, Vec<GenericIfDataTaggedItem>> = HashMap::new();
    for t in 0..ntags {
        let tag = format!("{}{}", cx.tape.pick_str(&["TAG_", "Z", "aa", "M_"]), t);
        let n = 1 + cx.tape.draw(2);
        let mut items = Vec::new();
        for k in 0..n {
            let is_block = cx.tape.chance(1, 2);
            items.push(GenericIfDataTaggedItem {
                incfile: None,
                line: 0,
                uid: 0,
                start_offset: 1,
                end_offset: u32::from(is_block),
                tag: tag.clone(),
                data: GenericIfData::Struct(None, 0, vec![GenericIfData::ULong(0, (cx.tape.draw(1000) as u32 + k as u32, false)), GenericIfData::String(0, api_string(cx))]),
                is_block,
            });
        }
        map.insert(tag, items);
    }
    let mut ifdata = IfData::new();
    ifdata.ifdata_items = Some(GenericIfData::Block { incfile: None, line: 0, items: vec![GenericIfData::EnumItem(0, "VENDOR".to_string()), GenericIfData::TaggedStruct(map)] });
    ifdata.ifdata_valid = true;
    (ifdata, ntags)
}

impl Scenario for C01HashOrder {
    fn property(&self) -> &'static str {
        "C01"
    }
    fn name(&self) -> &'static str {
        "api_built_ifdata_under_two_hash_seeds"
    }
    fn run(&self, cx: &mut Cx) -> Result<(), Violation> {
        // the same construction is executed twice from one sub-tape, in two threads with different hash keys
        let sub_seed = cx.tape.draw_u64();
        let k0 = cx.tape.draw_u64();
        let k1 = cx.tape.draw_u64();
        let build = move |render: bool, tier| {
            let mut sub = Cx::sub(crate::tape::Tape::from_seed(sub_seed), tier, render);
            let mut nm = Namer { n: 0, modern: true, order_disturbed: false, reserved_order_free: false, edit_violation: None };
            let mut file = build_api_model(&mut sub, &mut nm);
            let (ifdata, ntags) = api_ifdata(&mut sub);
            file.project.module[0].if_data.push(ifdata);
            if let Some(m) = file.project.module[0].measurement.get_mut("api_obj_1") {
                let (ifd2, _) = api_ifdata(&mut sub);
                m.if_data.push(ifd2);
            }
            (file.write_to_string(), ntags)
        };
        let tier = cx.tier;
        let here = guarded(cx, "no-panic", "build + write (own hash keys)", || build(false, tier))?;
        let other = with_hash_keys(k0, k1, move || std::panic::catch_unwind(move || build(false, tier)));
        cx.evals += 2;
        cx.event_lazy("text written under the run's hash keys", || crate::runner::clip(&here.0, 2000));
        match other {
            Ok(o) => {
                if o.0 != here.0 {
                    return Err(cx.fail("O4", "text-depends-on-hash-order", format!("the same API-built model written under two hash seeds gives different texts; first difference at {}", sut::first_diff(&here.0, &o.0))));
                }
            }
            Err(_) => return Err(cx.fail("no-panic", "panic-in-helper-thread", "build + write panicked under the second hash seed".to_string())),
        }
        // the text must also be loadable
        if let Err(e) = sut::load_str(cx, "O1", &here.0, None, false)? {
            return Err(cx.fail("O1", "reload-failed", format!("{e}")));
        }
        cx.nontrivial = true;
        cx.probe("api-built-tagged-items-with-equal-uid-and-line");
        cx.sig(&format!("hashorder|tags{}|class{}", here.1, cx.hash_order_class % 8));
        Ok(())
    }
}
