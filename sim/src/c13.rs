//! C13: ItemList coherence — seeded operation histories on the real `ItemList`, checked after every
//! step against a plain vector model. History dimension only: ItemList does no I/O and uses a fixed hash.

use crate::runner::{guarded, Cx, Scenario, Violation};
use a2lfile::{A2lObjectName, A2lObjectNameSetter, ItemList};
use std::collections::BTreeSet;

#[derive(Debug, Clone, PartialEq)]
struct Item {
    name: String,
    id: u64,
    payload: u64,
}

impl A2lObjectName for Item {
    fn get_name(&self) -> &str {
        &self.name
    }
}

impl A2lObjectNameSetter for Item {
    fn set_name(&mut self, name: String) {
        self.name = name;
    }
}

pub struct C13Histories {
    pub long: bool,
}

struct State {
    list: ItemList<Item>,
    model: Vec<Item>,
    graveyard: BTreeSet<String>,
    next_id: u64,
    pool: u64,
}

impl State {
    fn live(&self, name: &str) -> bool {
        self.model.iter().any(|i| i.name == name)
    }

    fn pool_name(&self, k: u64) -> String {
        if self.pool <= 4 {
            ["a", "b", "c", "d"][k as usize % 4].to_string()
        } else {
            // larger pools: mostly plain names, and a few unusual ones (empty, differing only in case, non-ASCII, a
            // common prefix, very long): a name is an arbitrary String for the list
            match k {
                0 => String::new(),
                1 => "N".to_string(),
                2 => "n".to_string(),
                3 => "\u{e9}t\u{e9}".to_string(),
                4 => "p1".to_string(),
                5 => "p10".to_string(),
                6 => "x".repeat(300),
                7 => "n 7".to_string(),
                _ => format!("n{k}"),
            }
        }
    }

    /// a name that is not live right now; prefers names from the graveyard half of the time
    fn fresh_name(&mut self, cx: &mut Cx) -> Option<String> {
        if !self.graveyard.is_empty() && cx.tape.chance(1, 2) {
            let idx = cx.tape.draw(self.graveyard.len() as u64) as usize;
            let n = self.graveyard.iter().nth(idx).cloned().unwrap();
            if !self.live(&n) {
                cx.probe("reuse-of-removed-name");
                return Some(n);
            }
        }
        let start = cx.tape.draw(self.pool);
        for off in 0..self.pool {
            let n = self.pool_name((start + off) % self.pool);
            if !self.live(&n) {
                return Some(n);
            }
        }
        None
    }

    fn new_item(&mut self, name: String) -> Item {
        self.next_id += 1;
        Item { name, id: self.next_id, payload: 0 }
    }
}

fn check(cx: &Cx, st: &State, step: usize, op: &str) -> Result<(), Violation> {
    let list = &st.list;
    let model = &st.model;
    let fail = |what: &str, detail: String| Err(cx.fail("model", what, format!("after step {step} ({op}): {detail}")));
    guarded(cx, "no-panic", &format!("observation after step {step} ({op})"), || {
        if list.len() != model.len() {
            return fail("len", format!("len() = {} but the model holds {}", list.len(), model.len()));
        }
        if list.is_empty() != model.is_empty() {
            return fail("is_empty", format!("is_empty() = {}", list.is_empty()));
        }
        if list.first() != model.first() {
            return fail("first", format!("first() = {:?}, model {:?}", list.first(), model.first()));
        }
        if list.last() != model.last() {
            return fail("last", format!("last() = {:?}, model {:?}", list.last(), model.last()));
        }
        for (i, m) in model.iter().enumerate() {
            if &list[i] != m {
                return fail("position", format!("list[{i}] = {:?}, model {:?}", list[i], m));
            }
        }
        let it: Vec<&Item> = list.iter().collect();
        if it.len() != model.len() || it.iter().zip(model.iter()).any(|(a, b)| *a != b) {
            return fail("iter-order", "iter() does not yield positional order".to_string());
        }
        let it2: Vec<&Item> = list.into_iter().collect();
        if it2.len() != model.len() || it2.iter().zip(model.iter()).any(|(a, b)| *a != b) {
            return fail("iter-order", "&list into_iter() does not yield positional order".to_string());
        }
        for (i, m) in model.iter().enumerate() {
            match list.index(&m.name) {
                Some(p) if p == i => {}
                other => return fail("index", format!("index({:?}) = {:?}, the element is at position {i}", m.name, other)),
            }
            match list.get(&m.name) {
                Some(e) if e.id == m.id => {}
                other => return fail("get", format!("get({:?}) = {:?}, expected id {}", m.name, other, m.id)),
            }
            if !list.contains_key(&m.name) {
                return fail("contains_key", format!("contains_key({:?}) = false for a stored element", m.name));
            }
            if list[m.name.as_str()].id != m.id {
                return fail("index-by-name", format!("list[{:?}] has id {} expected {}", m.name, list[m.name.as_str()].id, m.id));
            }
        }
        for dead in &st.graveyard {
            if model.iter().any(|m| &m.name == dead) {
                continue;
            }
            if list.get(dead).is_some() || list.index(dead).is_some() || list.contains_key(dead) {
                return fail("stale-name", format!("removed name {:?} is still reachable: index = {:?}", dead, list.index(dead)));
            }
        }
        let keys: BTreeSet<&String> = list.keys().collect();
        let names: BTreeSet<&String> = model.iter().map(|m| &m.name).collect();
        if keys != names || list.keys().count() != model.len() {
            return fail("keys", format!("keys() = {:?}, live names {:?}", keys, names));
        }
        Ok(())
    })?
}

impl Scenario for C13Histories {
    fn property(&self) -> &'static str {
        "C13"
    }
    fn name(&self) -> &'static str {
        if self.long {
            "itemlist_long_histories"
        } else {
            "itemlist_short_histories"
        }
    }

    fn fresh_thread(&self) -> bool {
        false
    }

    fn run(&self, cx: &mut Cx) -> Result<(), Violation> {
        let (pool, nops) = if self.long {
            let pool = *cx.tape.pick(&[8u64, 32, 200]);
            (pool, cx.tape.range(50, 1000) as usize)
        } else {
            (4, cx.tape.range(1, 8) as usize)
        };
        let mut st = State { list: ItemList::new(), model: Vec::new(), graveyard: BTreeSet::new(), next_id: 0, pool };
        // long histories start from a populated list most of the time
        {
            let n = if self.long { cx.tape.draw(pool + 1) } else { cx.tape.draw(4) };
            for k in 0..n {
                let name = st.pool_name(k);
                let item = st.new_item(name);
                st.model.push(item.clone());
                st.list.push(item);
            }
        }
        // swarm: a random subset of operation kinds is enabled in each run
        let all_ops = ["push", "pop", "swap_remove", "swap_remove_idx", "retain", "truncate", "sort_by", "rename", "extend", "clear", "collect", "clone", "get_mut", "with_capacity"];
        let mut enabled: Vec<&str> = all_ops.iter().copied().filter(|_| cx.tape.chance(3, 4)).collect();
        if enabled.is_empty() {
            enabled = all_ops.to_vec();
        }
        if !enabled.contains(&"push") {
            enabled.push("push");
        }
        let mut abstract_seq = String::new();
        cx.event(&format!("0: initial list {:?}, enabled operations {:?}", st.model.iter().map(|i| i.name.as_str()).collect::<Vec<_>>(), enabled));
        check(cx, &st, 0, "initial")?;
        cx.tape.begin_group();
        for step in 1..=nops {
            cx.tape.end_group();
            cx.tape.begin_group();
            cx.evals += 1;
            let mut op = *cx.tape.pick(&enabled);
            // keep long lists populated: bias towards push when small
            if self.long && st.model.len() < 2 && cx.tape.chance(1, 2) {
                op = "push";
            }
            let len = st.model.len();
            let desc: String;
            match op {
                "push" => {
                    let Some(name) = st.fresh_name(cx) else { continue };
                    let item = st.new_item(name.clone());
                    desc = format!("push({name})");
                    st.model.push(item.clone());
                    guarded(cx, "no-panic", &desc, || st.list.push(item))?;
                    st.graveyard.remove(&name);
                    abstract_seq.push_str("P;");
                }
                "pop" => {
                    desc = "pop()".to_string();
                    let exp = st.model.pop();
                    let got = guarded(cx, "no-panic", &desc, || st.list.pop())?;
                    if len > 0 {
                        cx.nontrivial = true;
                    }
                    if got != exp {
                        return Err(cx.fail("model", "return-value", format!("step {step}: pop() returned {got:?}, model {exp:?}")));
                    }
                    if let Some(e) = exp {
                        st.graveyard.insert(e.name);
                    }
                    abstract_seq.push_str(if len == 0 { "O0;" } else { "O;" });
                }
                "swap_remove" => {
                    // present | absent | the last | the only element
                    let class = cx.tape.draw(4);
                    let (name, cls) = if len == 0 || class == 0 {
                        // absent: a name that is not live
                        match st.fresh_name(cx) {
                            Some(n) => (n, "absent"),
                            None => (st.model[0].name.clone(), "first"),
                        }
                    } else if class == 1 {
                        cx.probe("swap_remove-of-last-element");
                        (st.model[len - 1].name.clone(), if len == 1 { "only" } else { "last" })
                    } else {
                        let i = cx.tape.draw(len as u64) as usize;
                        if i == len - 1 {
                            cx.probe("swap_remove-of-last-element");
                        }
                        (st.model[i].name.clone(), if i == len - 1 { "last" } else { "inner" })
                    };
                    desc = format!("swap_remove({name}) [{cls}]");
                    let exp = st.model.iter().position(|m| m.name == name).map(|p| st.model.swap_remove(p));
                    let got = guarded(cx, "no-panic", &desc, || st.list.swap_remove(&name))?;
                    if len > 0 {
                        cx.nontrivial = true;
                    }
                    if got != exp {
                        return Err(cx.fail("model", "return-value", format!("step {step}: {desc} returned {got:?}, model {exp:?}")));
                    }
                    if let Some(e) = exp {
                        st.graveyard.insert(e.name);
                    }
                    abstract_seq.push_str(&format!("S{cls};"));
                }
                "swap_remove_idx" => {
                    let class = cx.tape.draw(4);
                    let (idx, cls) = match class {
                        0 => (len, "eq-len"),
                        1 => (len + 1 + cx.tape.draw(1000) as usize, "beyond"),
                        2 if len > 0 => (len - 1, if len == 1 { "only" } else { "last" }),
                        _ if len > 0 => {
                            let i = cx.tape.draw(len as u64) as usize;
                            (i, if i == len - 1 { "last" } else { "inner" })
                        }
                        _ => (0, "eq-len"),
                    };
                    if len > 0 && idx == len - 1 {
                        cx.probe("swap_remove-of-last-element");
                    }
                    desc = format!("swap_remove_idx({idx}) [{cls}]");
                    let exp = if idx < len { Some(st.model.swap_remove(idx)) } else { None };
                    let got = guarded(cx, "no-panic", &desc, || st.list.swap_remove_idx(idx))?;
                    if len > 0 {
                        cx.nontrivial = true;
                    }
                    if got != exp {
                        return Err(cx.fail("model", "return-value", format!("step {step}: {desc} returned {got:?}, model {exp:?}")));
                    }
                    if let Some(e) = exp {
                        st.graveyard.insert(e.name);
                    }
                    abstract_seq.push_str(&format!("X{cls};"));
                }
                "retain" => {
                    // predicate on id: keep-all | keep-none | modulus
                    let class = cx.tape.draw(4);
                    let (m, r, cls) = match class {
                        0 => (1u64, 0u64, "all"),
                        1 => (1, 1, "none"),
                        2 => (2, cx.tape.draw(2), "half"),
                        _ => (3, cx.tape.draw(3), "third"),
                    };
                    desc = format!("retain(id % {m} == {r}) [{cls}]");
                    let keep = |i: &Item| i.id % m == r || (m == 1 && r == 0);
                    let removed: Vec<String> = st.model.iter().filter(|i| !keep(i)).map(|i| i.name.clone()).collect();
                    st.model.retain(|i| keep(i));
                    guarded(cx, "no-panic", &desc, || st.list.retain(|i| keep(i)))?;
                    if len > 0 {
                        cx.nontrivial = true;
                    }
                    st.graveyard.extend(removed);
                    abstract_seq.push_str(&format!("R{cls};"));
                }
                "truncate" => {
                    let class = cx.tape.draw(4);
                    let (n, cls) = match class {
                        0 => (0usize, "zero"),
                        1 => (len, "eq-len"),
                        2 => (len + 1 + cx.tape.draw(10) as usize, "beyond"),
                        _ => (if len > 0 { cx.tape.draw(len as u64) as usize } else { 0 }, "less"),
                    };
                    desc = format!("truncate({n}) [{cls}]");
                    let removed: Vec<String> = st.model.iter().skip(n).map(|i| i.name.clone()).collect();
                    st.model.truncate(n);
                    guarded(cx, "no-panic", &desc, || st.list.truncate(n))?;
                    if len > 0 {
                        cx.nontrivial = true;
                    }
                    st.graveyard.extend(removed);
                    abstract_seq.push_str(&format!("T{cls};"));
                }
                "sort_by" => {
                    let class = cx.tape.draw(3);
                    desc = format!("sort_by({})", ["name asc", "name desc", "id"][class as usize]);
                    match class {
                        0 => {
                            st.model.sort_by(|a, b| a.name.cmp(&b.name));
                            guarded(cx, "no-panic", &desc, || st.list.sort_by(|a, b| a.name.cmp(&b.name)))?;
                        }
                        1 => {
                            st.model.sort_by(|a, b| b.name.cmp(&a.name));
                            guarded(cx, "no-panic", &desc, || st.list.sort_by(|a, b| b.name.cmp(&a.name)))?;
                        }
                        _ => {
                            st.model.sort_by(|a, b| a.id.cmp(&b.id));
                            guarded(cx, "no-panic", &desc, || st.list.sort_by(|a, b| a.id.cmp(&b.id)))?;
                        }
                    }
                    if len > 1 {
                        cx.nontrivial = true;
                    }
                    abstract_seq.push_str(&format!("Q{class};"));
                }
                "rename" => {
                    let class = cx.tape.draw(4);
                    let idx = match class {
                        0 => len,
                        1 => len + 1 + cx.tape.draw(100) as usize,
                        _ => {
                            if len > 0 {
                                cx.tape.draw(len as u64) as usize
                            } else {
                                0
                            }
                        }
                    };
                    // new name: fresh | its own | previously removed (fresh_name covers the graveyard)
                    let own = idx < len && cx.tape.chance(1, 4);
                    let new_name = if own {
                        st.model[idx].name.clone()
                    } else {
                        match st.fresh_name(cx) {
                            Some(n) => n,
                            None => continue,
                        }
                    };
                    desc = format!("rename_item({idx}, {new_name}){}", if own { " [own name]" } else if idx >= len { " [out of range]" } else { "" });
                    if idx < len {
                        let old = std::mem::replace(&mut st.model[idx].name, new_name.clone());
                        if old != new_name {
                            st.graveyard.insert(old);
                        }
                        st.graveyard.remove(&new_name);
                        cx.nontrivial = true;
                    }
                    guarded(cx, "no-panic", &desc, || st.list.rename_item(idx, &new_name))?;
                    abstract_seq.push_str(if own { "Nown;" } else if idx >= len { "Noor;" } else { "N;" });
                }
                "extend" => {
                    let n = cx.tape.draw(6) as usize;
                    let mut items = Vec::new();
                    for _ in 0..n {
                        // names must be fresh with respect to the list *and* the batch
                        let Some(name) = st.fresh_name(cx) else { break };
                        if items.iter().any(|i: &Item| i.name == name) {
                            continue;
                        }
                        items.push(st.new_item(name));
                    }
                    desc = format!("extend({:?})", items.iter().map(|i| i.name.as_str()).collect::<Vec<_>>());
                    for i in &items {
                        st.graveyard.remove(&i.name);
                    }
                    st.model.extend(items.iter().cloned());
                    // the iterator handed to extend() need not know its length: exact (Vec), lower bound 0 (filter),
                    // exact part + unknown part (chain with from_fn), a wrong upper bound (take of a longer chain)
                    let shape = cx.tape.draw(4);
                    guarded(cx, "no-panic", &desc, || match shape {
                        0 => st.list.extend(items),
                        1 => st.list.extend(items.into_iter().filter(|_| true)),
                        2 => {
                            let mut rest = items.split_off(items.len() / 2).into_iter();
                            st.list.extend(items.into_iter().chain(std::iter::from_fn(move || rest.next())));
                        }
                        _ => {
                            let k = items.len();
                            st.list.extend(items.into_iter().chain(std::iter::repeat_with(|| unreachable!("taken beyond the real items"))).take(k));
                        }
                    })?;
                    abstract_seq.push_str(&format!("E{n}{};", ["", "f", "c", "t"][shape as usize]));
                }
                "clear" => {
                    desc = "clear()".to_string();
                    let removed: Vec<String> = st.model.iter().map(|i| i.name.clone()).collect();
                    st.model.clear();
                    guarded(cx, "no-panic", &desc, || st.list.clear())?;
                    if len > 0 {
                        cx.nontrivial = true;
                    }
                    st.graveyard.extend(removed);
                    abstract_seq.push_str("C;");
                }
                "collect" => {
                    desc = "collect() [rebuild through FromIterator]".to_string();
                    let old = std::mem::take(&mut st.list);
                    let filtered = cx.tape.chance(1, 2);
                    st.list = guarded(cx, "no-panic", &desc, || if filtered { old.into_iter().filter(|_| true).collect::<ItemList<Item>>() } else { old.into_iter().collect::<ItemList<Item>>() })?;
                    abstract_seq.push_str(if filtered { "Ff;" } else { "F;" });
                }
                "clone" => {
                    desc = "clone()".to_string();
                    st.list = guarded(cx, "no-panic", &desc, || st.list.clone())?;
                    abstract_seq.push_str("L;");
                }
                "get_mut" => {
                    // change the payload through every mutable access path; names are not touched
                    if len == 0 {
                        continue;
                    }
                    let i = cx.tape.draw(len as u64) as usize;
                    let path = cx.tape.draw(4);
                    let name = st.model[i].name.clone();
                    st.model[i].payload += 1;
                    desc = format!("payload += 1 on {name} via {}", ["get_mut", "IndexMut", "iter_mut", "&mut into_iter"][path as usize]);
                    guarded(cx, "no-panic", &desc, || match path {
                        0 => {
                            if let Some(e) = st.list.get_mut(&name) {
                                e.payload += 1;
                            }
                        }
                        1 => st.list[i].payload += 1,
                        2 => {
                            if let Some(e) = st.list.iter_mut().nth(i) {
                                e.payload += 1;
                            }
                        }
                        _ => {
                            if let Some(e) = (&mut st.list).into_iter().nth(i) {
                                e.payload += 1;
                            }
                        }
                    })?;
                    abstract_seq.push_str("M;");
                }
                _ => {
                    // rebuild into a list created by with_capacity + extend
                    desc = "with_capacity + extend [rebuild]".to_string();
                    let old = std::mem::take(&mut st.list);
                    let cap = cx.tape.draw(8) as usize;
                    st.list = guarded(cx, "no-panic", &desc, || {
                        let mut l = ItemList::with_capacity(cap);
                        l.extend(old);
                        l
                    })?;
                    abstract_seq.push_str("W;");
                }
            }
            cx.event(&format!("{step}: {desc}  -> len {}", st.model.len()));
            check(cx, &st, step, &desc)?;
        }
        cx.tape.end_group();
        // owned into_iter at the end
        let model = std::mem::take(&mut st.model);
        let list = std::mem::take(&mut st.list);
        let owned: Vec<Item> = guarded(cx, "no-panic", "into_iter()", || list.into_iter().collect())?;
        if owned != model {
            return Err(cx.fail("model", "iter-order", "owned into_iter() does not yield positional order".to_string()));
        }
        if self.long {
            // abstract sequences of long histories are all different; classify by the multiset of op kinds instead
            let mut kinds: Vec<&str> = abstract_seq.split(';').collect();
            kinds.sort_unstable();
            kinds.dedup();
            cx.sig(&format!("long:{}:{}", pool, kinds.join(",")));
        } else {
            cx.sig(&abstract_seq);
        }
        Ok(())
    }
}
