//! C17: the loaded model does not depend on the file's text encoding. Encoded files live in the
//! simulated file system and are read under adversarial chunking / EINTR / short reads / size lies.

use crate::c03::{apply_sfault, random_sfault};
use crate::gen::{feats_string, merge_feats, render_nodes, DocGen, GenOpts, LayoutOpts};
use crate::runner::{guarded, Cx, Scenario, Violation};
use crate::sut;
use crate::vfs::{Chunking, Fault, SimFs};
use std::collections::BTreeMap;

#[derive(Clone, Copy, Debug, PartialEq, Eq)]
pub enum Enc {
    Utf8,
    Utf16Le,
    Utf16Be,
    Utf32Le,
    Utf32Be,
    Latin1,
}

pub fn encode(text: &str, enc: Enc, bom: bool) -> Vec<u8> {
    let mut v = Vec::new();
    match enc {
        Enc::Utf8 => {
            if bom {
                v.extend_from_slice(&[0xEF, 0xBB, 0xBF]);
            }
            v.extend_from_slice(text.as_bytes());
        }
        Enc::Utf16Le | Enc::Utf16Be => {
            let mut units: Vec<u16> = Vec::new();
            if bom {
                units.push(0xFEFF);
            }
            units.extend(text.encode_utf16());
            for u in units {
                if enc == Enc::Utf16Le {
                    v.extend_from_slice(&u.to_le_bytes());
                } else {
                    v.extend_from_slice(&u.to_be_bytes());
                }
            }
        }
        Enc::Utf32Le | Enc::Utf32Be => {
            let mut chars: Vec<u32> = Vec::new();
            if bom {
                chars.push(0xFEFF);
            }
            chars.extend(text.chars().map(|c| c as u32));
            for c in chars {
                if enc == Enc::Utf32Le {
                    v.extend_from_slice(&c.to_le_bytes());
                } else {
                    v.extend_from_slice(&c.to_be_bytes());
                }
            }
        }
        Enc::Latin1 => {
            for c in text.chars() {
                v.push(if (c as u32) < 256 { c as u32 as u8 } else { b'?' });
            }
        }
    }
    v
}

pub struct C17Encodings;

const ENCODINGS: [(Enc, bool, &str); 11] = [
    (Enc::Utf8, false, "UTF-8"),
    (Enc::Utf8, true, "UTF-8+BOM"),
    (Enc::Utf16Le, false, "UTF-16LE"),
    (Enc::Utf16Le, true, "UTF-16LE+BOM"),
    (Enc::Utf16Be, false, "UTF-16BE"),
    (Enc::Utf16Be, true, "UTF-16BE+BOM"),
    (Enc::Utf32Le, false, "UTF-32LE"),
    (Enc::Utf32Le, true, "UTF-32LE+BOM"),
    (Enc::Utf32Be, false, "UTF-32BE"),
    (Enc::Utf32Be, true, "UTF-32BE+BOM"),
    (Enc::Latin1, false, "Latin-1 (invalid as UTF-8)"),
];

impl Scenario for C17Encodings {
    fn property(&self) -> &'static str {
        "C17"
    }
    fn name(&self) -> &'static str {
        "encodings_under_read_schedules"
    }

    fn run(&self, cx: &mut Cx) -> Result<(), Violation> {
        let fs = SimFs::new("/work", cx.tape.draw_u64());
        fs.install();
        // ---- document with non-ASCII content
        let mut opts = GenOpts::swarm(&mut cx.tape);
        opts.unicode = cx.tape.chance(7, 8);
        opts.budget = opts.budget.min(120);
        opts.float_overflow = false;
        let mut lo = LayoutOpts::swarm(&mut cx.tape);
        lo.unicode_comments = cx.tape.chance(1, 2);
        let fragment = cx.tape.chance(1, 5);
        let mut g = DocGen::new(&mut cx.tape, opts);
        let nodes = if fragment { g.fragment() } else { g.document() };
        let f1 = g.feats.clone();
        let r = render_nodes(&mut cx.tape, &nodes, &lo, if fragment { 2 } else { 0 });
        let feats = merge_feats(&f1, &r.feats);
        let mut text = r.text;
        // the format requires an ASCII first character
        if !text.as_bytes().first().is_some_and(u8::is_ascii) {
            text.insert(0, '\n');
        }
        // trailing whitespace: file lengths in every residue class mod 4
        let pad = cx.tape.draw(4) as usize;
        for i in 0..pad {
            text.push(if i % 2 == 0 { ' ' } else { '\n' });
        }
        let strict = cx.tape.chance(1, 2);
        let nenc = 1 + cx.tape.draw(3);
        cx.event_lazy(&format!("document ({} bytes, features {}, fragment={fragment})", text.len(), feats_string(&feats)), || crate::runner::clip(&text, 1500));

        cx.tape.begin_group();
        for _ in 0..nenc {
            cx.tape.end_group();
            cx.tape.begin_group();
            let (enc, bom, label) = *cx.tape.pick(&ENCODINGS);
            // one document in forty is made large: a block comment in front of it carries a run of non-BMP characters
            // across a power-of-two byte offset of the encoded file (4 KiB ... 1 MiB), where a decoder that works in
            // blocks would cut a surrogate pair, a 4-byte unit or a UTF-8 sequence in two
            let text: String = if cx.tape.chance(1, 40) {
                let boundary = *cx.tape.pick(&[4096usize, 8192, 65_536, 1 << 20]);
                let unit = match enc {
                    Enc::Utf16Le | Enc::Utf16Be => 2,
                    Enc::Utf32Le | Enc::Utf32Be => 4,
                    _ => 1,
                };
                let bom_bytes = if bom { if unit == 1 { 3 } else { unit } } else { 0 };
                // characters (= bytes / unit for the ASCII filler) in front of the run of emojis
                let before = (boundary - bom_bytes) / unit;
                let jitter = cx.tape.draw(8) as usize;
                let filler = before.saturating_sub(3 + 24 + jitter);
                let mut big = String::with_capacity(text.len() + filler + 300);
                big.push_str("/* ");
                big.extend(std::iter::repeat_n('x', filler));
                big.extend(std::iter::repeat_n('\u{1F600}', 24));
                big.push_str(" */\n");
                big.push_str(&text);
                cx.probe("large-file-with-non-BMP-run-across-a-block-boundary");
                big
            } else {
                text.clone()
            };
            // Latin-1: the reference is the text restricted to Latin-1, and the bytes must be invalid UTF-8
            let (bytes, reference_text) = if enc == Enc::Latin1 {
                let b = encode(&text, enc, false);
                if std::str::from_utf8(&b).is_ok() {
                    // pure ASCII (or accidentally valid UTF-8): this is simply the UTF-8 case
                    cx.probe("latin1-variant-is-valid-utf8");
                }
                let widened: String = b.iter().map(|x| *x as char).collect();
                if std::str::from_utf8(&b).is_ok() {
                    (b.clone(), String::from_utf8(b).unwrap())
                } else {
                    cx.probe("latin1-fallback-exercised");
                    (b, widened)
                }
            } else {
                (encode(&text, enc, bom), text.clone())
            };
            let chunking = match cx.tape.draw(6) {
                0 => Chunking::Whole,
                1 => Chunking::OneByte,
                2 => Chunking::Random(4096),
                3 => Chunking::Random(3),
                4 => Chunking::Fixed(bytes.len().max(1)),
                _ => Chunking::Fixed((bytes.len() + 1).saturating_sub(cx.tape.draw(3) as usize).max(1)),
            };
            fs.set_chunking(chunking);
            // benign read-path faults
            let mut plan = BTreeMap::new();
            let nf = cx.tape.draw(3);
            for _ in 0..nf {
                let f = match cx.tape.draw(3) {
                    0 => (1usize, Fault::MetaSize(cx.tape.draw(5) as u8)),
                    1 => (2 + cx.tape.draw(6) as usize, Fault::ReadShort(1 + cx.tape.draw(7) as usize)),
                    _ => (2 + cx.tape.draw(6) as usize, Fault::ReadEintr),
                };
                plan.insert(f.0, f.1);
            }
            fs.put("/work/enc.a2l", &bytes);
            fs.begin_op(plan, false);
            let got = if fragment {
                sut::load_fragment_path(cx, "E1", "/work/enc.a2l", None, bytes.len())?.map(|m| (Some(m), None, Vec::new()))
            } else {
                sut::load_path(cx, "E1", "/work/enc.a2l", None, strict, bytes.len())?.map(|(f, msgs)| (None, Some(f), sut::diag_classes(&msgs)))
            };
            let fired = fs.fired();
            for (_, f) in &fired {
                cx.fault_fired(f.name());
                if matches!(f, Fault::ReadEintr) {
                    cx.probe("EINTR-retried");
                }
            }
            let want = if fragment {
                sut::load_fragment(cx, "E1", &reference_text, None)?.map(|m| (Some(m), None, Vec::new()))
            } else {
                sut::load_str(cx, "E1", &reference_text, None, strict)?.map(|(f, msgs)| (None, Some(f), sut::diag_classes(&msgs)))
            };
            let chunk_class = match chunking {
                Chunking::Whole => "whole",
                Chunking::OneByte => "1byte",
                Chunking::Random(_) => "random",
                Chunking::Fixed(_) => "fixed~len",
            };
            let outcome = match (&got, &want) {
                (Ok(a), Ok(b)) => {
                    let equal = guarded(cx, "no-panic", "model comparison", || a.0 == b.0 && a.1 == b.1)?;
                    if !equal {
                        let d = match (&a.1, &b.1) {
                            (Some(x), Some(y)) => crate::c01::model_diff(y, x),
                            _ => "fragment modules differ".to_string(),
                        };
                        return Err(cx.fail("E1", "model-depends-on-encoding", format!("{label}, {} bytes (len % 4 = {}), chunking {chunk_class}, faults {:?}: loading the file gives a different model than loading the decoded string: {d}", bytes.len(), bytes.len() % 4, fired.iter().map(|f| f.1.name()).collect::<Vec<_>>())));
                    }
                    if a.2 != b.2 {
                        return Err(cx.fail("E1", "diagnostics-depend-on-encoding", format!("{label}: {:?} vs {:?}", a.2, b.2)));
                    }
                    // cross-check that does not rely on the crate's own PartialEq (see C01 O2)
                    if let (Some(x), Some(y)) = (&a.1, &b.1) {
                        if let Some(d) = guarded(cx, "no-panic", "Debug rendering of the models", || crate::c01::independent_diff(y, x))? {
                            return Err(cx.fail("E1", "equal-by-PartialEq-but-Debug-renderings-differ", format!("{label}: the crate's == calls the two models equal, their Debug renderings (IF_DATA excluded) differ: {d}")));
                        }
                    }
                    "Ok"
                }
                (Err(a), Err(b)) => {
                    if sut::err_class(a) != sut::err_class(b) {
                        return Err(cx.fail("E1", "error-depends-on-encoding", format!("{label}: file: {a} / string: {b}")));
                    }
                    "Err"
                }
                (Ok(_), Err(e)) => return Err(cx.fail("E1", "accepted-only-as-file", format!("{label}, {} bytes: the string is rejected ({e}) but the encoded file loads", bytes.len()))),
                (Err(e), Ok(_)) => return Err(cx.fail("E1", "rejected-only-as-file", format!("{label}, {} bytes (len % 4 = {}), chunking {chunk_class}, faults {:?}: the decoded string loads but the file does not: {e}", bytes.len(), bytes.len() % 4, fired.iter().map(|f| f.1.name()).collect::<Vec<_>>()))),
            };
            cx.event(&format!("{label}: {} bytes, len%4={}, chunking {chunk_class}, {} benign faults fired -> {outcome}, equal to load_from_string", bytes.len(), bytes.len() % 4, fired.len()));
            if feats.non_ascii || !(enc == Enc::Utf8 && !bom) {
                cx.nontrivial = true;
            }
            cx.sig(&format!("{label}|{}|bmp{}|{chunk_class}|{:?}|{outcome}", bytes.len() % 4, feats.non_bmp, fired.iter().map(|f| f.1.name()).collect::<Vec<_>>()));

            // ---- totality: the encoded bytes through a storage fault must load without panic
            if cx.tape.chance(1, 2) {
                let f = match cx.tape.draw(4) {
                    // odd-length truncation and faults around multi-byte units
                    0 => crate::c03::SFault::Truncate(bytes.len().saturating_sub(1 + cx.tape.draw(5) as usize)),
                    1 => crate::c03::SFault::BitFlip(cx.tape.draw(bytes.len().min(8) as u64 + 1) as usize, cx.tape.draw(8) as u8),
                    _ => random_sfault(&mut cx.tape, &bytes, &[], b"\xff\xfe\x00\xd8\x00\xdc"),
                };
                let damaged = apply_sfault(&bytes, &f);
                fs.put("/work/enc_damaged.a2l", &damaged);
                fs.begin_op(BTreeMap::new(), false);
                let r = if fragment {
                    sut::load_fragment_path(cx, "E2", "/work/enc_damaged.a2l", None, damaged.len())?.is_ok()
                } else {
                    sut::load_path(cx, "E2", "/work/enc_damaged.a2l", None, strict, damaged.len())?.is_ok()
                };
                cx.fault_fired(f.name());
                cx.event(&format!("{label} damaged by {}: {} bytes -> {}", f.name(), damaged.len(), if r { "Ok" } else { "Err" }));
            }

            // ---- E3: included files go through the same decoder: a main file (in an encoding of its own) that consists
            // of one /include directive naming the encoded document gives the same model as the decoded string
            if !fragment && cx.tape.chance(1, 3) {
                let (enc2, bom2, label2) = *cx.tape.pick(&ENCODINGS);
                let directive = cx.tape.pick_str(&["/include \"enc.a2l\"\n", "/include enc.a2l\n", "\n/include \"enc.a2l\" ", "/include \"/work/enc.a2l\"\n"]);
                let main_bytes = encode(directive, enc2, enc2 != Enc::Latin1 && bom2);
                fs.put("/work/enc_main.a2l", &main_bytes);
                fs.begin_op(BTreeMap::new(), false);
                let got3 = sut::load_path(cx, "E3", "/work/enc_main.a2l", None, strict, bytes.len() + main_bytes.len())?.map(|(f, msgs)| (f, sut::diag_classes(&msgs)));
                cx.probe("encoded-include-file");
                match (&got3, &want) {
                    (Ok(a), Ok(b)) => {
                        let equal = guarded(cx, "no-panic", "model comparison", || Some(&a.0) == b.1.as_ref())?;
                        if !equal {
                            return Err(cx.fail("E3", "model-depends-on-encoding-of-include", format!("include file in {label} ({} bytes), main file in {label2}: loading through /include gives a different model than loading the decoded string: {}", bytes.len(), crate::c01::model_diff(b.1.as_ref().unwrap(), &a.0))));
                        }
                        if a.1 != b.2 {
                            return Err(cx.fail("E3", "diagnostics-depend-on-encoding-of-include", format!("include file in {label}, main file in {label2}: {:?} vs {:?}", a.1, b.2)));
                        }
                    }
                    (Err(_), Err(_)) => {}
                    (Ok(_), Err(e)) => return Err(cx.fail("E3", "accepted-only-as-include", format!("include file in {label}, main file in {label2}: the string is rejected ({e}) but the file tree loads"))),
                    (Err(e), Ok(_)) => return Err(cx.fail("E3", "rejected-only-as-include", format!("include file in {label} ({} bytes), main file in {label2}: the decoded string loads but the file tree does not: {e}", bytes.len()))),
                }
                cx.event(&format!("E3: include file in {label}, main file in {label2} ({directive:?}) -> equal to load_from_string"));
            }
        }
        SimFs::uninstall();
        Ok(())
    }
}


/// totality on byte strings that are not derived from a document: BOMs, NULs, surrogates, stray high bytes
pub struct C17ArbitraryBytes;

impl Scenario for C17ArbitraryBytes {
    fn property(&self) -> &'static str {
        "C17"
    }
    fn name(&self) -> &'static str {
        "arbitrary_byte_strings"
    }
    fn fresh_thread(&self) -> bool {
        false
    }
    fn run(&self, cx: &mut Cx) -> Result<(), Violation> {
        let fs = SimFs::new("/work", cx.tape.draw_u64());
        fs.install();
        let n = *cx.tape.pick(&[0usize, 1, 2, 3, 4, 5, 7, 8, 16, 33, 100, 400]);
        let mut bytes: Vec<u8> = Vec::new();
        // a prefix that steers the detection cascade
        let prefixes: [&[u8]; 10] = [b"", b"\xEF\xBB\xBF", b"\xFF\xFE", b"\xFE\xFF", b"\xFF\xFE\x00\x00", b"\x00\x00\xFE\xFF", b"A\x00", b"\x00A", b"A\x00\x00\x00", b"\x00\x00\x00A"];
        let p: &[u8] = *cx.tape.pick(&prefixes);
        bytes.extend_from_slice(p);
        let alphabet: [&[u8]; 14] = [b"/begin ", b"/end ", b"A2ML", b"\"", b"/*", b"*/", b"//", b"\n", b"\x00", b"\xD8\x00", b"\x00\xDC", b"\xFF", b"\xC3\xA4", b"ASAP2_VERSION 1 71 "];
        while bytes.len() < n {
            match cx.tape.draw(3) {
                0 => bytes.push(cx.tape.draw(256) as u8),
                1 => {
                    let a: &[u8] = *cx.tape.pick(&alphabet);
                    bytes.extend_from_slice(a);
                }
                _ => {
                    // an ASCII character in one of the wide encodings
                    let ch = b' ' + cx.tape.draw(90) as u8;
                    match cx.tape.draw(4) {
                        0 => bytes.extend_from_slice(&[ch, 0]),
                        1 => bytes.extend_from_slice(&[0, ch]),
                        2 => bytes.extend_from_slice(&[ch, 0, 0, 0]),
                        _ => bytes.extend_from_slice(&[0, 0, 0, ch]),
                    }
                }
            }
        }
        if cx.tape.chance(1, 2) {
            bytes.truncate(n);
        }
        fs.set_chunking(match cx.tape.draw(3) {
            0 => Chunking::Whole,
            1 => Chunking::OneByte,
            _ => Chunking::Random(5),
        });
        fs.put("/work/bytes.a2l", &bytes);
        let strict = cx.tape.chance(1, 2);
        cx.event(&format!("{} bytes: {:02x?}", bytes.len(), &bytes[..bytes.len().min(64)]));
        fs.begin_op(BTreeMap::new(), false);
        let r1 = sut::load_path(cx, "E2", "/work/bytes.a2l", None, strict, bytes.len())?.is_ok();
        fs.begin_op(BTreeMap::new(), false);
        let r2 = sut::load_fragment_path(cx, "E2", "/work/bytes.a2l", None, bytes.len())?.is_ok();
        cx.nontrivial = !bytes.is_empty();
        cx.sig(&format!("bytes|len{}|{}|{r1}|{r2}", bytes.len() % 4, bytes.len().min(9)));
        SimFs::uninstall();
        Ok(())
    }
}
