mod a2mlgen;
mod c01;
mod c03;
mod c13;
mod c17;
mod gen;
mod gentool;
mod sut;
mod vfs;
mod hashseed;
mod runner;
mod tape;

use runner::{CheckSpec, ScenarioPlan, Tier};

fn all_checks() -> Vec<CheckSpec> {
    vec![c01_spec(), c03_spec(), c13_spec(), c17_spec()]
}

fn c01_spec() -> CheckSpec {
    CheckSpec {
        property: "C01",
        level: "exploration",
        rule: "one run = one session history Load(T0); (Edit*; Save; [Environment]; Reload)^k over a model, T0 a generated document from the frozen A2L 1.7.1 grammar table (whole file, fragment, file in the simulated FS, or a model built through new()/T::new()/push), saves and reloads through the in-memory VFS under the run's read-chunking schedule and hash seed. Oracles O1 reload succeeds, O2 model equality, O3 byte fixpoint, O4 same text under a second hash seed, O5 file = banner + text; fault configuration adds injected write/open/metadata/read faults with the relaxed oracle. Non-trivial: >= 1 full cycle and the document has a comment, non-ASCII text, hex/exponent number or IF_DATA, or the model was built/edited through the API. Distinct: (entry point, files used, cycles, lexical feature set, environment kinds, edits, fault kinds fired, hash-order class).",
        assumptions: vec![
            "generated documents are derived from a frozen copy of the grammar; a construct missing from it is never exercised",
            "position-restricted siblings (RESERVED in RECORD_LAYOUT) are generated in ascending position order: the writer's documented reordering is an input precondition, not a drift",
            "an Environment step (CRLF conversion, re-encoding) resets the baseline; the property says nothing about third-party rewrites",
            "API-built models use finite floats and identifier-syntax names only",
        ],
        real_components: vec!["a2lfile: tokenizer, loader (decoding, BOM), parser, generated parsers/writers, writer, ifdata, a2ml, ItemList", "std Read::read_to_end retry/growth loop"],
        stubbed_components: vec!["file system (in-memory VFS behind cfg(a2lfile_verif))", "OS randomness feeding std RandomState (getrandom interposer)"],
        expected_probes: vec!["hash-order-cross-check"],
        plans: vec![
            ScenarioPlan { scenario: Box::new(c01::C01Cycles { faults: false }), quick_runs: 12_000, thorough_runs: 1_000_000 },
            ScenarioPlan { scenario: Box::new(c01::C01Cycles { faults: true }), quick_runs: 6_000, thorough_runs: 400_000 },
        ],
    }
}

fn c03_spec() -> CheckSpec {
    CheckSpec {
        property: "C03",
        level: "fault_enumeration",
        rule: "files that were valid when written (generated from the frozen grammar, with A2ML and IF_DATA, whole file or fragment) and were then damaged by storage faults. Scenario 1 enumerates per document every truncation point (quick: every point for documents <= 700 bytes, else 160 biased points plus every point inside the A2ML text) and every single-token drop / duplication / swap, under configurations entry {load_from_string, load, load_fragment, load_fragment_file} x strict x built-in A2ML spec {none, valid, damaged} (thorough: all configurations for every point). Scenario 2: seeded 1..3 byte-granular faults (bit flip, zero fill, garbage, lost / duplicated / swapped region, misdirected write) on UTF-8/16/32 encoded files, with read chunking and I/O faults. Oracle: the call returns Ok or Err; no panic, no arithmetic overflow (overflow checks on), fuel (4096 ticks per byte) not exhausted. evaluations = loads. Non-trivial: the fault changed the bytes. Distinct: (fault operator, lexical region class of the fault position, configuration, outcome class).",
        assumptions: vec![
            "damaged inputs are the closure of valid generated documents under the fault operators, not all byte strings: token soups and adversarial nesting depth are outside this fault model",
            "fuel covers loops that pass a tick site (tokenizer, A2ML tokenizer/parser loops, parser token cursor); tick-free loops are not covered",
        ],
        real_components: vec!["a2lfile: tokenizer, loader, parser, generated parsers, ifdata, a2ml (all four load entry points)", "std Read::read_to_end"],
        stubbed_components: vec!["file system (in-memory VFS)", "OS randomness feeding std RandomState"],
        expected_probes: vec!["truncation-inside-a2ml-text", "fault-inside-a2ml-text"],
        plans: vec![
            ScenarioPlan { scenario: Box::new(c03::C03Enumerate), quick_runs: 320, thorough_runs: 3_000 },
            ScenarioPlan { scenario: Box::new(c03::C03RandomFaults), quick_runs: 30_000, thorough_runs: 1_500_000 },
        ],
    }
}

fn c17_spec() -> CheckSpec {
    CheckSpec {
        property: "C17",
        level: "exploration",
        rule: "generated documents with non-ASCII and non-BMP characters in strings and comments, padded to every length residue mod 4, encoded as UTF-8, UTF-8+BOM, UTF-16LE/BE with/without BOM, UTF-32LE/BE with/without BOM or Latin-1 bytes that are invalid UTF-8, stored in the simulated file system and read under a chunking schedule (whole, 1 byte, random, exactly len, len +- 1) with benign read-path faults (EINTR, short read, fstat size lie). Oracle: load(file) and load_from_string(decoded text) give equal models and the same diagnostic classes, or fail with the same error class. Totality: the encoded bytes after one storage fault load without panic. Non-trivial: non-ASCII content or an encoding other than plain UTF-8. Distinct: (encoding, length mod 4, non-BMP present, chunk class, fault kinds fired, outcome).",
        assumptions: vec!["first character of every document is ASCII, as the format requires", "Latin-1 variants that happen to be valid UTF-8 are compared against the UTF-8 reading (inherent ambiguity, counted by a probe)"],
        real_components: vec!["a2lfile: loader (read_data, decode_raw_bytes, BOM strip), load/load_fragment_file and everything behind them", "std Read::read_to_end retry/growth loop"],
        stubbed_components: vec!["file system (in-memory VFS)", "OS randomness feeding std RandomState"],
        expected_probes: vec!["EINTR-retried", "latin1-fallback-exercised"],
        plans: vec![ScenarioPlan { scenario: Box::new(c17::C17Encodings), quick_runs: 20_000, thorough_runs: 2_000_000 }],
    }
}

fn c13_spec() -> CheckSpec {
    CheckSpec {
        property: "C13",
        level: "exploration",
        rule: "seeded operation histories (push, pop, swap_remove by name/index, retain, truncate, sort_by, rename_item, extend, clear, collect, clone, mutable access, with_capacity) on the real ItemList, every argument class (present/absent/last/only element, in range/== len/beyond), compared after every step with a Vec model; short: <= 8 ops over a 4-name alphabet, long: 50..1000 ops over pools of 8/32/200 names. Non-trivial: at least one removing, renaming or reordering operation hit a non-empty list. Distinct: hash of the abstract operation sequence (operation kinds with argument classes) for short histories, (pool size, set of operation kinds used) for long ones.",
        assumptions: vec![
            "names are unique at every instant, as the property presupposes; list[absent name] and list[idx >= len] are never issued (documented Index contract)",
            "history dimension only: ItemList performs no I/O and hashes with FNV, there is no fault or schedule to inject",
        ],
        real_components: vec!["a2lfile::ItemList (all public methods and trait impls)"],
        stubbed_components: vec!["element type: harness-defined Item implementing the public A2lObjectName / A2lObjectNameSetter traits"],
        expected_probes: vec!["swap_remove-of-last-element", "reuse-of-removed-name"],
        plans: vec![
            ScenarioPlan { scenario: Box::new(c13::C13Histories { long: false }), quick_runs: 2_000_000, thorough_runs: 60_000_000 },
            ScenarioPlan { scenario: Box::new(c13::C13Histories { long: true }), quick_runs: 3_000, thorough_runs: 100_000 },
        ],
    }
}

fn main() {
    runner::install_panic_hook();
    let args: Vec<String> = std::env::args().collect();
    let code = match args.get(1).map(String::as_str) {
        Some("check") => {
            let id = args.get(2).cloned().unwrap_or_default();
            let tier = match args.get(3).cloned().or(std::env::var("VERIF_TIER").ok()).as_deref() {
                Some("thorough") => Tier::Thorough,
                _ => Tier::Quick,
            };
            match all_checks().into_iter().find(|c| c.property == id) {
                Some(spec) => runner::run_check(&spec, tier),
                None => {
                    eprintln!("HARNESS ERROR: no check for property {id}");
                    2
                }
            }
        }
        Some("replay") => runner::replay_file(args.get(2).map_or("", String::as_str), &all_checks()),
        Some("gen") => gentool::run(&args[2..]),
        Some("rt") => gentool::roundtrip(&args[2..]),
        Some("selftest") => match hashseed::selftest() {
            Ok(()) => {
                println!("hash seam self-test ok");
                0
            }
            Err(e) => {
                eprintln!("HARNESS ERROR: {e}");
                2
            }
        },
        _ => {
            eprintln!("usage: a2lsim check <ID> [quick|thorough] | replay <file> | selftest");
            2
        }
    };
    std::process::exit(code);
}
