mod a2mlgen;
mod c01;
mod c03;
mod c13;
mod c15;
mod c16;
mod c17;
mod gen;
mod gentool;
mod sut;
mod vfs;
mod hashseed;
mod memseam;
mod runner;
mod tape;

use runner::{CheckSpec, ScenarioPlan, Tier};

#[global_allocator]
static GLOBAL: memseam::CountingAlloc = memseam::CountingAlloc;

pub fn all_checks() -> Vec<CheckSpec> {
    vec![c01_spec(), c03_spec(), c13_spec(), c15_spec(), c16_spec(), c17_spec()]
}

fn c01_spec() -> CheckSpec {
    CheckSpec {
        property: "C01",
        level: "exploration",
        rule: "one run = one session history Load(T0); (Edit*; Save; [Environment]; Reload)^k over a model, T0 a generated document from the frozen A2L 1.7.1 grammar table (whole file, fragment, file in the simulated FS, or a model built through new()/T::new()/push), Edit = push / field edit / removal / rename / optional child / reset_location / merge_modules / merge_includes / sort() / cleanup() / ifdata_cleanup() / sort_new_items(), saves and reloads through the in-memory VFS under the run's read-chunking schedule and hash seed. Oracles O1 reload succeeds, O2 model equality (the crate's ==, cross-checked on the first and every fourth cycle by element-wise Debug renderings without IF_DATA), O3 byte fixpoint, O4 same text under a second hash seed, O5 file = banner + text; fault configuration adds injected write/open/metadata/read faults with the relaxed oracle. Non-trivial: >= 1 full cycle and the document has a comment, non-ASCII text, hex/exponent number or IF_DATA, or the model was built/edited through the API. Distinct: (entry point, files used, cycles, lexical feature set, environment kinds, edits, fault kinds fired, hash-order class).",
        assumptions: vec![
            "generated documents are derived from a frozen copy of the grammar; a construct missing from it is never exercised",
            "position-restricted siblings (RESERVED in RECORD_LAYOUT) are generated in ascending position order: the writer's documented reordering is an input precondition, not a drift",
            "an Environment step (CRLF conversion, re-encoding) resets the baseline; the property says nothing about third-party rewrites",
            "API-built models use finite floats and identifier-syntax names only",
            "the integer literal -0 is not generated (accepted by signed members only, written as 0 which unsigned members accept too; inside IF_DATA that can move the value into a neighbouring unsigned sequence on reload)",
        ],
        real_components: vec!["a2lfile: tokenizer, loader (decoding, BOM), parser, generated parsers/writers, writer, ifdata, a2ml, ItemList", "std Read::read_to_end retry/growth loop"],
        stubbed_components: vec!["file system (in-memory VFS behind cfg(a2lfile_verif))", "OS randomness feeding std RandomState (getrandom interposer)"],
        expected_probes: vec!["hash-order-cross-check", "api-built-tagged-items-with-equal-uid-and-line", "built-in-a2ml-specification", "position-restricted-siblings-out-of-order", "file-with-more-than-one-a2ml-block", "torn-save-then-load", "saves-over-the-same-file", "edit:sort()", "edit:cleanup()", "edit:ifdata_cleanup()", "edit:sort_new_items()", "declared-version-differs-from-content", "a2ml-block-without-usable-definition", "api-built-a2ml-block"],
        plans: vec![
            ScenarioPlan { scenario: Box::new(c01::C01Cycles { faults: false }), quick_runs: 12_000, thorough_runs: 1_000_000 },
            ScenarioPlan { scenario: Box::new(c01::C01Cycles { faults: true }), quick_runs: 6_000, thorough_runs: 400_000 },
            ScenarioPlan { scenario: Box::new(c01::C01HashOrder), quick_runs: 3_000, thorough_runs: 100_000 },
            // only used to replay known findings that are recorded as literal input
            ScenarioPlan { scenario: Box::new(c01::C01FixedInput), quick_runs: 0, thorough_runs: 0 },
        ],
    }
}

fn c03_spec() -> CheckSpec {
    CheckSpec {
        property: "C03",
        level: "fault_enumeration",
        rule: "files that were valid when written (generated from the frozen grammar, with A2ML and IF_DATA, whole file or fragment) and were then damaged by storage faults. Scenario 1 enumerates per document every truncation point (quick: every point for documents <= 700 bytes, else 160 biased points plus every point inside the A2ML text) and every single-token drop / duplication / swap and every numeric token replaced by a value at or beyond an integer-width limit, under configurations entry {load_from_string, load, load_fragment, load_fragment_file} x strict x built-in A2ML spec {none, valid, damaged} (thorough: all configurations for every point). Scenario 4 (supplementary input sampling, not fault simulation): token soups over the lexical alphabet (with unusual version numbers and integer-width limits) with a built-in specification that is valid or malformed. Scenario 5 (supplementary input sampling as well): extreme shapes of small inputs: IF_DATA blocks, A2ML types, chains of named A2ML types, array dimensions and unknown blocks nested 3..150000 deep, named A2ML types referencing their predecessor 2/3/8 times over up to 22 levels, in the file or as built-in specification, and include trees in which every file includes the next one 2 or 3 times over up to 31 levels (A2L level or inside A2ML); a returned model is also written and dropped. Scenario 3: include trees (as in C16) with 1..2 files damaged or removed per load. Scenario 2: seeded 1..3 byte-granular faults (bit flip, zero fill, garbage, lost / duplicated / swapped region, misdirected write) on UTF-8/16/32 encoded files, with read chunking and I/O faults. Oracle: the call returns Ok or Err and its diagnostics can be rendered (Display/Debug); no panic, no arithmetic overflow (overflow checks on), fuel (512 ticks per byte) not exhausted, peak memory held by the call (counting allocator) at most 192 MiB + 4096 bytes per input byte, the process does not die (stack overflow / abort are reported through the check script's abnormal-termination path). evaluations = loads. Non-trivial: the fault changed the bytes. Distinct: (fault operator, lexical region class of the fault position, configuration, outcome class).",
        assumptions: vec![
            "damaged inputs are the closure of valid generated documents under the fault operators, not all byte strings; token soups and extreme nesting / reference shapes are sampled by two supplementary scenarios that are plain seeded input generation, not fault simulation",
            "fuel covers loops that pass a tick site (tokenizer, A2ML tokenizer/parser loops, parser token cursor); tick-free loops are not covered",
        ],
        real_components: vec!["a2lfile: tokenizer, loader, parser, generated parsers, ifdata, a2ml (all four load entry points)", "std Read::read_to_end"],
        stubbed_components: vec!["file system (in-memory VFS)", "OS randomness feeding std RandomState", "global allocator: the system allocator wrapped by a per-thread byte counter (memory seam)"],
        expected_probes: vec!["truncation-inside-a2ml-text", "fault-inside-a2ml-text", "number-replaced-by-extreme-value", "soup-with-unusual-version-numbers", "nesting-depth>=2000", "named-type-fanout>=2^20-nodes", "include-fanout>=10^6-loads"],
        plans: vec![
            ScenarioPlan { scenario: Box::new(c03::C03Enumerate), quick_runs: 320, thorough_runs: 3_000 },
            ScenarioPlan { scenario: Box::new(c03::C03RandomFaults), quick_runs: 30_000, thorough_runs: 1_500_000 },
            ScenarioPlan { scenario: Box::new(c03::C03IncludeTrees), quick_runs: 5_000, thorough_runs: 250_000 },
            ScenarioPlan { scenario: Box::new(c03::C03TokenSoups), quick_runs: 150_000, thorough_runs: 5_000_000 },
            ScenarioPlan { scenario: Box::new(c03::C03Nesting), quick_runs: 1_500, thorough_runs: 40_000 },
        ],
    }
}

fn c15_spec() -> CheckSpec {
    CheckSpec {
        property: "C15",
        level: "exploration",
        rule: "a model loaded from a file with 1..3 MODULEs and 0..300 MODULE-level elements of up to 20 kinds in arbitrary order, with A2ML, MOD_COMMON, MOD_PAR, VARIANT_CODING, IF_DATA and USER_RIGHTS blocks at arbitrary positions among them (optional comments), then a seeded history of up to 60 (thorough: 400) operations over {push new element of kind K (all 20 list kinds, USER_RIGHTS and API-built IF_DATA), merge a small module with fresh names, sort_new_items (runs of 1..64 consecutive calls drawn on purpose), write to the simulated FS, write + reload}. After every operation the output text is scanned by an independent scanner for the MODULE-level (kind, name) sequence and compared with an order model: placed elements never change relative order; after sort_new_items each pending element whose kind has a placed member stands after the last placed element of its kind and before the placed element that followed it, others stay at the end; nothing is lost or duplicated; no panic or arithmetic overflow. evaluations = library calls. Non-trivial: at least one sort_new_items placed a pending element. Distinct: (size bucket, kinds, longest consecutive-sort run bucket, effective sorts, merges, pending kinds).",
        assumptions: vec![
            "history dimension only: nothing here is nondeterministic and no fault is involved; the write/reload steps go through the VFS but no oracle depends on that",
            "the mutual order of elements inserted by the same call, and of pending elements at the end, is not constrained (the property does not state it)",
            "every MODULE-level block of the file belongs to the placed order; pushed are the 20 name-indexed list kinds, USER_RIGHTS and IF_DATA. New optional single blocks (A2ML, MOD_COMMON, MOD_PAR, VARIANT_CODING) are not pushed: the code places them at the top on purpose, which the property neither demands nor forbids",
        ],
        real_components: vec!["a2lfile: sort_new_items, merge_modules, writer ordering (Writer::sort_function), load/write"],
        stubbed_components: vec!["file system (in-memory VFS, used by the write steps only)"],
        expected_probes: vec![">=16-consecutive-sort_new_items", "file-with-several-modules", "new-elements-placed-in-a-later-module", "optional-block-or-if_data-among-the-elements"],
        plans: vec![ScenarioPlan { scenario: Box::new(c15::C15Histories), quick_runs: 10_000, thorough_runs: 120_000 }],
    }
}

fn c16_spec() -> CheckSpec {
    CheckSpec {
        property: "C16",
        level: "fault_enumeration",
        rule: "a generated document is split at element boundaries (top level, inside MODULE, inside elements with sub-elements) into a main file plus 1..6 include files nested up to 3 deep in sub-/parent directories of the simulated file system; per directive quoted/unquoted name, / or \\ separators, file and directory names from a pool (names starting with n, r, t; for quoted names blanks, '-', '+', '&', '=', '~', apostrophes, parentheses, non-ASCII letters; also for the A2ML-level include), includer-relative or absolute path, optional decoy at the CWD-relative location, optional A2ML-level include, empty and comment-only include files, include files in another encoding. Oracles T1 load(main) == load_from_string(flattened text), T2 write + reload from the same directory gives an equal model and leaves include files untouched, T3 merge_includes() output is self-contained and equal, T4 cyclic includes are reported as errors. A second scenario does T1 for the fragment entry point (load_fragment_file on a split fragment, main file outside the CWD, decoys below the CWD, against load_fragment of the flattened text). Then the fault-free load's file-system call sequence is recorded and re-run once for every (call, applicable fault kind) pair: benign faults must not change the result, hard faults must give the error that names the file / directive. evaluations = library calls. Non-trivial: at least one element came from an included file. Distinct: (depth, number of includes, name syntaxes, A2ML include, strictness, lexical features) and (fault kind, call kind / file role).",
        assumptions: vec![
            "splits are made only between complete tagged items of one parent; a file is included twice only in the one shape 'same directive repeated directly behind itself, content = ANNOTATION blocks' (one run in three tries; known finding KF-C16-1)",
            "the CWD-relative legacy fallback is neither required nor forbidden: exists:false-neg is not injected when a decoy could be picked up",
            "diagnostics are compared by class, not by file name or line",
        ],
        real_components: vec!["a2lfile: tokenizer (include resolution), loader (make_include_filename, load, decoding), a2ml tokenizer (A2ML-level include), parser, writer, merge_includes", "std Read::read_to_end"],
        stubbed_components: vec!["file system (in-memory VFS with directories, CWD, fault plan, call trace)", "OS randomness feeding std RandomState"],
        expected_probes: vec!["include-resolved-at-depth>=2", "include-resolved-at-depth-3", "EINTR-retried", "empty-include-file", "comment-only-include-file", "decoy-at-cwd-relative-location", "include-inside-if_data", "a2ml-include-inside-an-included-file", "include-file-in-utf16", "include-name-with-special-characters", "a2ml-include-name-with-special-characters", "a2ml-include-file-ends-in-line-comment-without-line-break", "same-file-included-twice-in-one-block", "main-text-through-load_from_string"],
        plans: vec![
            ScenarioPlan { scenario: Box::new(c16::C16Includes), quick_runs: 6_000, thorough_runs: 200_000 },
            ScenarioPlan { scenario: Box::new(c16::C16Cycles), quick_runs: 64, thorough_runs: 512 },
            ScenarioPlan { scenario: Box::new(c16::C16Fragments), quick_runs: 2_000, thorough_runs: 60_000 },
            // replays known findings that are recorded as a literal file tree; no runs of its own
            ScenarioPlan { scenario: Box::new(c16::C16FixedTree), quick_runs: 0, thorough_runs: 0 },
        ],
    }
}

fn c17_spec() -> CheckSpec {
    CheckSpec {
        property: "C17",
        level: "exploration",
        rule: "generated documents with non-ASCII and non-BMP characters in strings and comments, padded to every length residue mod 4, encoded as UTF-8, UTF-8+BOM, UTF-16LE/BE with/without BOM, UTF-32LE/BE with/without BOM or Latin-1 bytes that are invalid UTF-8, stored in the simulated file system and read under a chunking schedule (whole, 1 byte, random, exactly len, len +- 1) with benign read-path faults (EINTR, short read, fstat size lie). Oracle: load(file) and load_from_string(decoded text) give equal models and the same diagnostic classes, or fail with the same error class. E3 (one run in three): the encoded document loaded through a main file, in an encoding of its own, that consists of one /include directive (quoted, unquoted, absolute) gives the same model as the decoded string. Totality: the encoded bytes after one storage fault load without panic; a second scenario loads byte strings that are not derived from a document (BOM / NUL / surrogate / high-byte patterns and the lexical alphabet, lengths 0..400, every residue mod 4) through load and load_fragment_file. Non-trivial: non-ASCII content or an encoding other than plain UTF-8. Distinct: (encoding, length mod 4, non-BMP present, chunk class, fault kinds fired, outcome).",
        assumptions: vec!["first character of every document is ASCII, as the format requires", "Latin-1 variants that happen to be valid UTF-8 are compared against the UTF-8 reading (inherent ambiguity, counted by a probe)"],
        real_components: vec!["a2lfile: loader (read_data, decode_raw_bytes, BOM strip), load/load_fragment_file and everything behind them", "std Read::read_to_end retry/growth loop"],
        stubbed_components: vec!["file system (in-memory VFS)", "OS randomness feeding std RandomState"],
        expected_probes: vec!["EINTR-retried", "latin1-fallback-exercised", "encoded-include-file", "large-file-with-non-BMP-run-across-a-block-boundary"],
        plans: vec![
            ScenarioPlan { scenario: Box::new(c17::C17Encodings), quick_runs: 40_000, thorough_runs: 2_000_000 },
            ScenarioPlan { scenario: Box::new(c17::C17ArbitraryBytes), quick_runs: 40_000, thorough_runs: 4_000_000 },
        ],
    }
}

fn c13_spec() -> CheckSpec {
    CheckSpec {
        property: "C13",
        level: "exploration",
        rule: "seeded operation histories (push, pop, swap_remove by name/index, retain, truncate, sort_by, rename_item, extend, clear, collect, clone, mutable access, with_capacity) on the real ItemList, every argument class (present/absent/last/only element, in range/== len/beyond), compared after every step with a Vec model; short: <= 8 ops over a 4-name alphabet, long: 50..1000 ops over pools of 8/32/200 names. Non-trivial: at least one removing, renaming or reordering operation hit a non-empty list. Distinct: hash of the abstract operation sequence (operation kinds with argument classes) for short histories, (pool size, set of operation kinds used) for long ones.",
        assumptions: vec![
            "names are unique at every instant, as the property presupposes; list[absent name] and list[idx >= len] are never issued (documented Index contract)",
            "history dimension only: ItemList performs no I/O and hashes with FNV, there is no fault or schedule to inject",
        ],
        real_components: vec!["a2lfile::ItemList (all public methods and trait impls)"],
        stubbed_components: vec!["element type: harness-defined Item implementing the public A2lObjectName / A2lObjectNameSetter traits"],
        expected_probes: vec!["swap_remove-of-last-element", "reuse-of-removed-name"],
        plans: vec![
            ScenarioPlan { scenario: Box::new(c13::C13Histories { long: false }), quick_runs: 2_000_000, thorough_runs: 60_000_000 },
            ScenarioPlan { scenario: Box::new(c13::C13Histories { long: true }), quick_runs: 3_000, thorough_runs: 100_000 },
        ],
    }
}

fn main() {
    runner::install_panic_hook();
    let args: Vec<String> = std::env::args().collect();
    let code = match args.get(1).map(String::as_str) {
        Some("check") => {
            let id = args.get(2).cloned().unwrap_or_default();
            let tier = match args.get(3).cloned().or(std::env::var("VERIF_TIER").ok()).as_deref() {
                Some("thorough") => Tier::Thorough,
                _ => Tier::Quick,
            };
            match all_checks().into_iter().find(|c| c.property == id) {
                Some(spec) => runner::run_check(&spec, tier),
                None => {
                    eprintln!("HARNESS ERROR: no check for property {id}");
                    2
                }
            }
        }
        Some("one") => {
            let tier = if args.get(4).map(String::as_str) == Some("thorough") { Tier::Thorough } else { Tier::Quick };
            runner::run_one(&all_checks(), &args[2], &args[3], tier, args.get(5).and_then(|s| s.parse().ok()).unwrap_or(0))
        }
        Some("abort-replay") => {
            let tier = if args.get(5).map(String::as_str) == Some("thorough") { Tier::Thorough } else { Tier::Quick };
            runner::write_abort_replay(&all_checks(), &args[2], args[3].parse().unwrap_or(0), args[4].parse().unwrap_or(0), tier, args.get(6).map_or("unknown status", String::as_str))
        }
        Some("replay") => runner::replay_file(args.get(2).map_or("", String::as_str), &all_checks()),
        Some("gen") => gentool::run(&args[2..]),
        Some("rt") => gentool::roundtrip(&args[2..]),
        Some("dbgmodpar") => gentool::dbgmodpar(&args[2..]),
        Some("rtfile") => gentool::roundtrip_file(&args[2..]),
        Some("selftest") => match hashseed::selftest() {
            Ok(()) => {
                println!("hash seam self-test ok");
                0
            }
            Err(e) => {
                eprintln!("HARNESS ERROR: {e}");
                2
            }
        },
        _ => {
            eprintln!("usage: a2lsim check <ID> [quick|thorough] | replay <file> | selftest");
            2
        }
    };
    std::process::exit(code);
}
