//! C03: loading never panics, overflows or hangs — valid documents damaged by storage faults
//! (every torn-write point, token-level and byte-level faults), read by every entry point in every configuration.

use crate::a2mlgen;
use crate::gen::{render_nodes, DocGen, GenOpts, LayoutOpts, Span, SpanKind};
use crate::runner::{Cx, Scenario, Tier, Violation};
use crate::sut;
use crate::tape::{SplitMix64, Tape};
use crate::vfs::{Chunking, Fault, SimFs, EIO};
use std::collections::BTreeMap;

#[derive(Clone, Debug)]
pub enum SFault {
    Truncate(usize),
    BitFlip(usize, u8),
    Zero(usize, usize),
    Garbage(usize, usize, u64),
    Drop(usize, usize),
    Dup(usize, usize),
    Swap(usize, usize, usize, usize),
    Splice(usize, Vec<u8>),
}

impl SFault {
    pub fn name(&self) -> &'static str {
        match self {
            SFault::Truncate(_) => "storage:truncate",
            SFault::BitFlip(..) => "storage:bitflip",
            SFault::Zero(..) => "storage:zero-fill",
            SFault::Garbage(..) => "storage:garbage",
            SFault::Drop(..) => "storage:drop-region",
            SFault::Dup(..) => "storage:dup-region",
            SFault::Swap(..) => "storage:swap-regions",
            SFault::Splice(..) => "storage:misdirected-write",
        }
    }

    pub fn pos(&self) -> usize {
        match self {
            SFault::Truncate(p) | SFault::BitFlip(p, _) | SFault::Zero(p, _) | SFault::Garbage(p, _, _) | SFault::Drop(p, _) | SFault::Dup(p, _) | SFault::Swap(p, _, _, _) | SFault::Splice(p, _) => *p,
        }
    }
}

pub fn apply_sfault(data: &[u8], f: &SFault) -> Vec<u8> {
    let n = data.len();
    let cl = |x: usize| x.min(n);
    match f {
        SFault::Truncate(k) => data[..cl(*k)].to_vec(),
        SFault::BitFlip(p, b) => {
            let mut v = data.to_vec();
            if *p < n {
                v[*p] ^= 1 << (b % 8);
            }
            v
        }
        SFault::Zero(a, b) => {
            let mut v = data.to_vec();
            for x in &mut v[cl(*a)..cl(*b).max(cl(*a))] {
                *x = 0;
            }
            v
        }
        SFault::Garbage(a, b, seed) => {
            let mut v = data.to_vec();
            let mut r = SplitMix64(*seed);
            for x in &mut v[cl(*a)..cl(*b).max(cl(*a))] {
                *x = r.next() as u8;
            }
            v
        }
        SFault::Drop(a, b) => {
            let (a, b) = (cl(*a), cl(*b).max(cl(*a)));
            let mut v = data[..a].to_vec();
            v.extend_from_slice(&data[b..]);
            v
        }
        SFault::Dup(a, b) => {
            let (a, b) = (cl(*a), cl(*b).max(cl(*a)));
            let mut v = data[..b].to_vec();
            v.extend_from_slice(&data[a..b]);
            v.extend_from_slice(&data[b..]);
            v
        }
        SFault::Swap(a, b, c, d) => {
            let mut p = [cl(*a), cl(*b), cl(*c), cl(*d)];
            p.sort_unstable();
            let mut v = data[..p[0]].to_vec();
            v.extend_from_slice(&data[p[2]..p[3]]);
            v.extend_from_slice(&data[p[1]..p[2]]);
            v.extend_from_slice(&data[p[0]..p[1]]);
            v.extend_from_slice(&data[p[3]..]);
            v
        }
        SFault::Splice(pos, other) => {
            let p = cl(*pos);
            let mut v = data[..p].to_vec();
            v.extend_from_slice(other);
            let skip = (p + other.len()).min(n);
            v.extend_from_slice(&data[skip..]);
            v
        }
    }
}

/// a position biased towards places where the reader has in-flight state
pub fn biased_pos(t: &mut Tape, len: usize, spans: &[Span]) -> usize {
    if len == 0 {
        return 0;
    }
    if spans.is_empty() || t.chance(1, 3) {
        return t.draw(len as u64 + 1) as usize;
    }
    // prefer A2ML raw text, strings, comments, numbers, /begin /end /include
    let interesting: Vec<&Span> = spans.iter().filter(|s| matches!(s.kind, SpanKind::Raw | SpanKind::Comment | SpanKind::Begin | SpanKind::End)).collect();
    let s = if !interesting.is_empty() && t.chance(1, 2) { *t.pick(&interesting) } else { t.pick(spans) };
    let p = match t.draw(5) {
        0 => s.start,
        1 => s.end,
        2 => s.start + 1,
        3 => s.end.saturating_sub(1),
        _ => s.start + t.draw((s.end - s.start) as u64 + 1) as usize,
    };
    p.min(len)
}

pub fn region_class(pos: usize, spans: &[Span]) -> &'static str {
    for s in spans {
        if pos >= s.start && pos < s.end {
            return match s.kind {
                SpanKind::Begin => "begin",
                SpanKind::End => "end",
                SpanKind::Tag => "tag",
                SpanKind::Tok => "token",
                SpanKind::Raw => "a2ml-text",
                SpanKind::Comment => "comment",
            };
        }
    }
    "whitespace"
}

pub fn random_sfault(t: &mut Tape, data: &[u8], spans: &[Span], other: &[u8]) -> SFault {
    let n = data.len();
    let a = biased_pos(t, n, spans);
    let len = match t.draw(4) {
        0 => 1,
        1 => 1 + t.draw(8) as usize,
        2 => 1 + t.draw(64) as usize,
        _ => 1 + t.draw(512) as usize,
    };
    match t.draw(9) {
        0 | 1 => SFault::Truncate(a),
        2 => SFault::BitFlip(a.min(n.saturating_sub(1)), t.draw(8) as u8),
        3 => SFault::Zero(a, a + len),
        4 => SFault::Garbage(a, a + len, t.draw_u64()),
        5 => SFault::Drop(a, a + len),
        6 => SFault::Dup(a, a + len),
        7 => {
            let c = biased_pos(t, n, spans);
            SFault::Swap(a, a + len, c, c + 1 + t.draw(64) as usize)
        }
        _ => {
            let start = if other.is_empty() { 0 } else { t.draw(other.len() as u64) as usize };
            let end = (start + len).min(other.len());
            SFault::Splice(a, other[start..end].to_vec())
        }
    }
}

#[derive(Clone, Copy, Debug)]
pub struct Config {
    /// 0 load_from_string / load_fragment, 1 load / load_fragment_file
    pub file_entry: bool,
    pub strict: bool,
    /// 0 none, 1 valid, 2 damaged
    pub spec: u8,
}

impl Config {
    pub fn all(fragment: bool) -> Vec<Config> {
        let mut v = Vec::new();
        for file_entry in [false, true] {
            for strict in if fragment { vec![false] } else { vec![false, true] } {
                for spec in 0..3u8 {
                    v.push(Config { file_entry, strict, spec });
                }
            }
        }
        v
    }

    pub fn label(&self, fragment: bool) -> String {
        let entry = match (fragment, self.file_entry) {
            (false, false) => "load_from_string",
            (false, true) => "load",
            (true, false) => "load_fragment",
            (true, true) => "load_fragment_file",
        };
        format!("{entry}/strict={}/spec={}", self.strict, ["none", "valid", "damaged"][self.spec as usize])
    }
}

pub struct Workload {
    pub text: String,
    pub spans: Vec<Span>,
    pub fragment: bool,
    pub spec_valid: String,
    pub spec_damaged: String,
}

pub fn gen_workload(cx: &mut Cx, max_budget: i64) -> Workload {
    let fragment = cx.tape.chance(1, 3);
    let mut opts = GenOpts::swarm(&mut cx.tape);
    opts.budget = opts.budget.min(max_budget);
    opts.float_overflow = false;
    // damaged documents are most interesting with A2ML and IF_DATA present
    opts.allow_a2ml = cx.tape.chance(3, 4);
    opts.allow_ifdata = cx.tape.chance(3, 4);
    opts.ifdata_a2ml_block = cx.tape.chance(1, 2);
    let lo = LayoutOpts::swarm(&mut cx.tape);
    let mut g = DocGen::new(&mut cx.tape, opts);
    if g.t.chance(1, 8) {
        // a header that declares another version than the content was written for (a stale header block)
        g.declared = Some(*g.t.pick(&crate::gen::VERSIONS));
    }
    let nodes = if fragment { g.fragment() } else { g.document() };
    let r = render_nodes(&mut cx.tape, &nodes, &lo, if fragment { 2 } else { 0 });
    let spec_valid = a2mlgen::gen_a2ml(&mut cx.tape).text;
    // the damaged specification: one storage fault on the valid one
    let f = random_sfault(&mut cx.tape, spec_valid.as_bytes(), &[], r.text.as_bytes());
    let spec_damaged = String::from_utf8_lossy(&apply_sfault(spec_valid.as_bytes(), &f)).to_string();
    Workload { text: r.text, spans: r.spans, fragment, spec_valid, spec_damaged }
}

/// one load of (possibly damaged) bytes under one configuration; the oracle is "returns"
pub fn load_once(cx: &mut Cx, fs: &std::rc::Rc<SimFs>, w: &Workload, bytes: &[u8], cfg: Config, plan: BTreeMap<usize, Fault>) -> Result<String, Violation> {
    let spec = match cfg.spec {
        0 => None,
        1 => Some(w.spec_valid.clone()),
        _ => Some(w.spec_damaged.clone()),
    };
    let outcome = if cfg.file_entry {
        fs.put("/work/damaged.a2l", bytes);
        fs.begin_op(plan, false);
        let r = if w.fragment {
            sut::load_fragment_path(cx, "totality", "/work/damaged.a2l", spec, bytes.len())?.map(|_| 0usize)
        } else {
            sut::load_path(cx, "totality", "/work/damaged.a2l", spec, cfg.strict, bytes.len())?.map(|(_, m)| m.len())
        };
        for (_, f) in fs.fired() {
            cx.fault_fired(f.name());
        }
        if fs.cycle_guard_hit() {
            return Err(cx.fail("totality", "include-cycle-not-detected", "the same file was opened more than 48 times during one load".to_string()));
        }
        r
    } else {
        let text = String::from_utf8_lossy(bytes);
        if w.fragment {
            sut::load_fragment(cx, "totality", &text, spec)?.map(|_| 0usize)
        } else {
            sut::load_str(cx, "totality", &text, spec, cfg.strict)?.map(|(_, m)| m.len())
        }
    };
    Ok(match outcome {
        Ok(0) => "Ok".to_string(),
        Ok(_) => "Ok+diagnostics".to_string(),
        Err(e) => sut::err_class(&e),
    })
}

fn random_io_plan(cx: &mut Cx) -> BTreeMap<usize, Fault> {
    let mut plan = BTreeMap::new();
    if cx.tape.chance(1, 4) {
        let f = match cx.tape.draw(5) {
            0 => (1usize, Fault::MetaSize(cx.tape.draw(5) as u8)),
            1 => (2 + cx.tape.draw(3) as usize, Fault::ReadShort(1 + cx.tape.draw(8) as usize)),
            2 => (2 + cx.tape.draw(3) as usize, Fault::ReadEintr),
            3 => (2 + cx.tape.draw(3) as usize, Fault::ReadEio),
            _ => (0, Fault::OpenErr(EIO)),
        };
        plan.insert(f.0, f.1);
    }
    plan
}

fn pick_chunking(cx: &mut Cx) -> Chunking {
    match cx.tape.draw(4) {
        0 => Chunking::Whole,
        1 => Chunking::Random(4096),
        2 => Chunking::Random(5),
        _ => Chunking::Fixed(1 + cx.tape.draw(32) as usize),
    }
}

// ------------------------------------------------------------------------------------------------

/// seeded random multi-fault runs with byte-granular regions
pub struct C03RandomFaults;

impl Scenario for C03RandomFaults {
    fn property(&self) -> &'static str {
        "C03"
    }
    fn name(&self) -> &'static str {
        "random_storage_faults"
    }
    fn run(&self, cx: &mut Cx) -> Result<(), Violation> {
        let fs = SimFs::new("/work", cx.tape.draw_u64());
        fs.install();
        fs.set_chunking(pick_chunking(cx));
        let w = gen_workload(cx, 80);
        let other = w.spec_valid.clone().into_bytes();
        let nloads = 1 + cx.tape.draw(6);
        cx.event_lazy("document", || crate::runner::clip(&w.text, 2500));
        cx.tape.begin_group();
        for _ in 0..nloads {
            cx.tape.end_group();
            cx.tape.begin_group();
            // encode for the file entry points: UTF-8 mostly, sometimes UTF-16/32
            let enc = cx.tape.draw(8);
            let mut bytes = match enc {
                0 => crate::c17::encode(&w.text, crate::c17::Enc::Utf16Le, true),
                1 => crate::c17::encode(&w.text, crate::c17::Enc::Utf16Be, false),
                2 => crate::c17::encode(&w.text, crate::c17::Enc::Utf32Le, cx.tape.chance(1, 2)),
                3 => crate::c17::encode(&w.text, crate::c17::Enc::Utf8, true),
                _ => w.text.clone().into_bytes(),
            };
            let spans: &[Span] = if enc >= 4 { &w.spans } else { &[] };
            let nfaults = 1 + cx.tape.draw(3);
            let mut names = Vec::new();
            let mut classes = Vec::new();
            for _ in 0..nfaults {
                let f = random_sfault(&mut cx.tape, &bytes, spans, &other);
                classes.push(region_class(f.pos(), spans));
                let nb = apply_sfault(&bytes, &f);
                if nb != bytes {
                    cx.fault_fired(f.name());
                    names.push(f.name());
                }
                bytes = nb;
                if bytes.len() > 1 << 20 {
                    break;
                }
            }
            let cfgs = Config::all(w.fragment);
            let mut cfg = *cx.tape.pick(&cfgs);
            if enc < 4 {
                cfg.file_entry = true;
            }
            let plan = if cfg.file_entry { random_io_plan(cx) } else { BTreeMap::new() };
            let label = cfg.label(w.fragment);
            cx.event_lazy(&format!("load {label} after {names:?}"), || crate::runner::clip(&String::from_utf8_lossy(&bytes), 1200));
            let outcome = load_once(cx, &fs, &w, &bytes, cfg, plan)?;
            cx.event(&format!("  -> {outcome}"));
            if !names.is_empty() {
                cx.nontrivial = true;
                cx.sig(&format!("{names:?}|{classes:?}|{label}|{outcome}"));
            }
            if classes.contains(&"a2ml-text") {
                cx.probe("fault-inside-a2ml-text");
            }
        }
        SimFs::uninstall();
        Ok(())
    }
}

/// per document: every truncation point (every crash point of a writer) and every single-token
/// deletion / duplication / swap, each under the applicable configurations
pub struct C03Enumerate;

impl Scenario for C03Enumerate {
    fn property(&self) -> &'static str {
        "C03"
    }
    fn name(&self) -> &'static str {
        "enumerate_truncations_and_token_faults"
    }
    fn run(&self, cx: &mut Cx) -> Result<(), Violation> {
        let fs = SimFs::new("/work", cx.tape.draw_u64());
        fs.install();
        fs.set_chunking(pick_chunking(cx));
        let thorough = cx.tier == Tier::Thorough;
        let w = gen_workload(cx, if thorough { 30 } else { 12 });
        let bytes = w.text.clone().into_bytes();
        let n = bytes.len();
        let cfgs = Config::all(w.fragment);
        cx.event_lazy(&format!("document ({n} bytes, {} tokens, fragment={})", w.spans.len(), w.fragment), || crate::runner::clip(&w.text, 2500));
        // a start offset so that different runs pair truncation points with different configurations
        let rot = cx.tape.draw(cfgs.len() as u64) as usize;

        // ---- truncation points
        let points: Vec<usize> = if thorough || n <= 700 {
            (0..=n).collect()
        } else {
            // 160 points biased to token boundaries, plus every point inside the A2ML text
            let mut p = Vec::new();
            for _ in 0..160 {
                p.push(biased_pos(&mut cx.tape, n, &w.spans));
            }
            for s in w.spans.iter().filter(|s| s.kind == SpanKind::Raw) {
                p.extend(s.start..=s.end.min(s.start + 300));
            }
            p.sort_unstable();
            p.dedup();
            p
        };
        cx.event(&format!("{} truncation points x {} configurations", points.len(), if thorough { cfgs.len() } else { 2 }));
        for (i, k) in points.iter().enumerate() {
            let cut = &bytes[..*k];
            let selected: Vec<Config> = if thorough { cfgs.clone() } else { vec![cfgs[(i + rot) % cfgs.len()], cfgs[(i * 7 + rot + 3) % cfgs.len()]] };
            for cfg in selected {
                let label = cfg.label(w.fragment);
                let class = region_class(*k, &w.spans);
                if class == "a2ml-text" {
                    cx.probe("truncation-inside-a2ml-text");
                }
                let outcome = match load_once(cx, &fs, &w, cut, cfg, BTreeMap::new()) {
                    Ok(o) => o,
                    Err(mut v) => {
                        v.detail = format!("truncated after {k} of {n} bytes, {label}: {}", v.detail);
                        cx.event_lazy("violating input", || crate::runner::clip(&String::from_utf8_lossy(cut), 3000));
                        return Err(v);
                    }
                };
                cx.sig(&format!("truncate|{class}|{label}|{outcome}"));
            }
        }
        cx.fault_fired("storage:truncate");
        cx.nontrivial = true;

        // ---- token-level faults: each token dropped, duplicated, swapped with its successor
        let toks = &w.spans;
        let stride = if thorough || toks.len() <= 150 { 1 } else { toks.len() / 150 + 1 };
        let mut idx = cx.tape.draw(stride as u64) as usize;
        let mut count = 0usize;
        while idx < toks.len() {
            for op in 0..4 {
                let s = &toks[idx];
                let damaged: Vec<u8> = match op {
                    0 => apply_sfault(&bytes, &SFault::Drop(s.start, s.end)),
                    3 => {
                        // a numeric token replaced by a value at or beyond the limit of an integer width (a stale or
                        // misdirected block often shows up as an absurd number, and numbers are unchecked input anyway)
                        let tok = &bytes[s.start..s.end];
                        if s.kind != SpanKind::Tok || !tok.first().is_some_and(|c| c.is_ascii_digit() || *c == b'-') {
                            continue;
                        }
                        let extremes: [&[u8]; 12] = [b"255", b"256", b"65535", b"65536", b"1000", b"4294967295", b"4294967296", b"18446744073709551615", b"18446744073709551616", b"-32769", b"-2147483649", b"0xFFFFFFFFFFFFFFFFFF"];
                        let e = extremes[(idx + count) % extremes.len()];
                        cx.probe("number-replaced-by-extreme-value");
                        let mut v = bytes[..s.start].to_vec();
                        v.extend_from_slice(e);
                        v.extend_from_slice(&bytes[s.end..]);
                        v
                    }
                    1 => {
                        // duplicate the token including one separator
                        let mut v = bytes[..s.end].to_vec();
                        v.push(b' ');
                        v.extend_from_slice(&bytes[s.start..s.end]);
                        v.extend_from_slice(&bytes[s.end..]);
                        v
                    }
                    _ => {
                        if idx + 1 >= toks.len() {
                            continue;
                        }
                        let nx = &toks[idx + 1];
                        if nx.start < s.end {
                            continue;
                        }
                        apply_sfault(&bytes, &SFault::Swap(s.start, s.end, nx.start, nx.end))
                    }
                };
                let opname = ["token-drop", "token-dup", "token-swap", "number-extreme"][op];
                let selected: Vec<Config> = if thorough { cfgs.clone() } else { vec![cfgs[(count + rot) % cfgs.len()]] };
                for cfg in selected {
                    let label = cfg.label(w.fragment);
                    let outcome = match load_once(cx, &fs, &w, &damaged, cfg, BTreeMap::new()) {
                        Ok(o) => o,
                        Err(mut v) => {
                            v.detail = format!("{opname} of token {idx} ({:?}), {label}: {}", String::from_utf8_lossy(&bytes[s.start..s.end.min(s.start + 40)]), v.detail);
                            cx.event_lazy("violating input", || crate::runner::clip(&String::from_utf8_lossy(&damaged), 3000));
                            return Err(v);
                        }
                    };
                    let kind = match s.kind {
                        SpanKind::Begin => "begin",
                        SpanKind::End => "end",
                        SpanKind::Tag => "tag",
                        SpanKind::Tok => "token",
                        SpanKind::Raw => "a2ml-text",
                        SpanKind::Comment => "comment",
                    };
                    cx.sig(&format!("{opname}|{kind}|{label}|{outcome}"));
                }
                count += 1;
            }
            idx += stride;
        }
        cx.fault_fired("storage:token-drop/dup/swap/number");
        cx.event(&format!("{count} token-level faults"));
        SimFs::uninstall();
        Ok(())
    }
}


/// include trees whose files are damaged or missing: the loader must still return
pub struct C03IncludeTrees;

impl Scenario for C03IncludeTrees {
    fn property(&self) -> &'static str {
        "C03"
    }
    fn name(&self) -> &'static str {
        "damaged_include_trees"
    }
    fn run(&self, cx: &mut Cx) -> Result<(), Violation> {
        use crate::c16::{install_tree, make_include, split_a2ml, split_list, total_bytes, SplitState};
        use crate::gen::{render_file, Item};
        let fs = SimFs::new("/cwd", cx.tape.draw_u64());
        fs.install();
        fs.mkdir_p("/work");
        fs.set_chunking(pick_chunking(cx));
        let mut opts = GenOpts::swarm(&mut cx.tape);
        opts.budget = opts.budget.clamp(8, 60);
        opts.float_overflow = false;
        opts.allow_a2ml = cx.tape.chance(3, 4);
        opts.allow_ifdata = cx.tape.chance(3, 4);
        let lo = LayoutOpts::swarm(&mut cx.tape);
        let mut items: Vec<Item> = {
            let mut g = DocGen::new(&mut cx.tape, opts);
            g.document().into_iter().map(Item::Node).collect()
        };
        let mut st = SplitState { counter: 0, max_files: 1 + cx.tape.draw(5) as u32, made: 0, max_depth_reached: 0, decoys: Vec::new(), syntax: String::new() };
        split_list(cx, &mut items, 0, "/work", 1, &mut st, 5, false);
        if st.made == 0 {
            make_include(cx, &mut items, 0, "/work", 1, &mut st, false);
        }
        if cx.tape.chance(1, 2) {
            split_a2ml(cx, &mut items, "/work", &mut st);
        }
        let root = render_file(&mut cx.tape, "/work/main.a2l", &items, &lo, 0);
        let files: Vec<(String, String, Vec<Span>)> = root.all_files().iter().map(|f| (f.path.clone(), f.text.clone(), f.spans.clone())).collect();
        let spec_valid = a2mlgen::gen_a2ml(&mut cx.tape).text;
        cx.event(&format!("include tree: {} files, syntax {}", files.len(), st.syntax));
        let rounds = 2 + cx.tape.draw(5);
        cx.tape.begin_group();
        for _ in 0..rounds {
            cx.tape.end_group();
            cx.tape.begin_group();
            // restore the tree, then damage it
            install_tree(&fs, cx, &root);
            let nvictims = 1 + cx.tape.draw(2);
            let mut what = Vec::new();
            for _ in 0..nvictims {
                let (path, text, spans) = cx.tape.pick(&files).clone();
                if cx.tape.chance(1, 6) {
                    fs.remove(&path);
                    cx.fault_fired("storage:file-missing");
                    what.push(format!("{path} removed"));
                    continue;
                }
                let bytes = text.into_bytes();
                let f = random_sfault(&mut cx.tape, &bytes, &spans, spec_valid.as_bytes());
                let damaged = apply_sfault(&bytes, &f);
                if damaged != bytes {
                    cx.fault_fired(f.name());
                    cx.nontrivial = true;
                }
                what.push(format!("{path}: {} at {} ({})", f.name(), f.pos(), region_class(f.pos(), &spans)));
                fs.put(&path, &damaged);
            }
            let strict = cx.tape.chance(1, 2);
            let spec = match cx.tape.draw(3) {
                0 => None,
                1 => Some(spec_valid.clone()),
                _ => Some(String::from_utf8_lossy(&apply_sfault(spec_valid.as_bytes(), &random_sfault(&mut cx.tape, spec_valid.as_bytes(), &[], b"/include \"x\""))).to_string()),
            };
            let plan = random_io_plan(cx);
            let total = total_bytes(&fs);
            fs.begin_op(plan, false);
            let r = sut::load_path(cx, "totality", "/work/main.a2l", spec, strict, total)?;
            for (_, f) in fs.fired() {
                cx.fault_fired(f.name());
            }
            if fs.cycle_guard_hit() {
                return Err(cx.fail("totality", "include-cycle-not-detected", "the same file was opened more than 48 times during one load".to_string()));
            }
            let outcome = match r {
                Ok((_, d)) if d.is_empty() => "Ok".to_string(),
                Ok(_) => "Ok+diagnostics".to_string(),
                Err(e) => sut::err_class(&e),
            };
            cx.event(&format!("{what:?}, strict={strict} -> {outcome}"));
            cx.sig(&format!("tree|{}|{strict}|{outcome}", what.iter().map(|w| w.split(": ").nth(1).unwrap_or("removed").split(' ').next().unwrap_or("").to_string()).collect::<Vec<_>>().join("+")));
        }
        SimFs::uninstall();
        Ok(())
    }
}


/// supplementary input sampling (plain seeded generation, not fault simulation): sequences over the lexical
/// alphabet of the format, which reach token arrangements that no single fault on a valid document produces
pub struct C03TokenSoups;

impl Scenario for C03TokenSoups {
    fn property(&self) -> &'static str {
        "C03"
    }
    fn name(&self) -> &'static str {
        "token_soups"
    }
    fn fresh_thread(&self) -> bool {
        // short inputs, no dependence on hash order: run in the worker thread (thread creation would dominate)
        false
    }
    fn run(&self, cx: &mut Cx) -> Result<(), Violation> {
        let fs = SimFs::new("/work", cx.tape.draw_u64());
        fs.install();
        let alphabet: [&str; 48] = [
            "65535", "65536", "1000", "4294967296", "18446744073709551616", "-32769", "0xFFFFFFFFFFFFFFFFFF", "-9223372036854775809",
            "/begin", "/end", "/include", "A2ML", "IF_DATA", "PROJECT", "MODULE", "MEASUREMENT", "CHARACTERISTIC", "ASAP2_VERSION", "A2ML_VERSION", "\"", "\"\"", "\"x\"", "\"a\\\"b\"", "/*", "*/", "//", "\n", "\r\n", " ", "\t", "0", "1", "71", "-1", "0x", "0xFF",
            "1e3", "1e999", ".", "-", "ident", "a.b[1]", "9abc", "UBYTE", "block", "taggedstruct", ";", "{",
        ];
        let n = *cx.tape.pick(&[1usize, 2, 3, 5, 8, 13, 30, 80]);
        let mut text = String::new();
        // half of the soups start like a file so that the parser gets past the first tokens
        if cx.tape.chance(1, 2) {
            if cx.tape.chance(1, 4) {
                // version numbers are unchecked input as well
                let nums = ["0", "1", "2", "50", "71", "99", "255", "656", "1000", "65535", "65536", "0xFFFF", "-1", "4294967295", "1e3"];
                text.push_str(&format!("ASAP2_VERSION {} {} ", cx.tape.pick_str(&nums), cx.tape.pick_str(&nums)));
                if cx.tape.chance(1, 2) {
                    text.push_str(&format!("A2ML_VERSION {} {} ", cx.tape.pick_str(&nums), cx.tape.pick_str(&nums)));
                }
                text.push_str("/begin PROJECT p \"\" /begin MODULE m \"\" ");
                cx.probe("soup-with-unusual-version-numbers");
            } else {
                text.push_str("ASAP2_VERSION 1 71 /begin PROJECT p \"\" /begin MODULE m \"\" ");
            }
        }
        // the small alphabet of the property statement half of the time, and a per-run separator probability
        let hot: [&str; 14] = ["/begin", "/end", "/include", "A2ML", "IF_DATA", "\"", "\"\"", "/*", "//", "1", "x", "\n", "é", "\"ü"];
        let use_hot = cx.tape.chance(1, 2);
        let sep16 = *cx.tape.pick(&[4u64, 8, 12, 16]);
        if cx.tape.chance(1, 3) {
            text.push_str("/begin IF_DATA ");
        }
        for _ in 0..n {
            if cx.tape.chance(1, 64) {
                // very long tokens: digit strings, identifiers, strings beyond 16-bit lengths
                let (c, len) = *cx.tape.pick(&[('9', 400usize), ('9', 5_000), ('a', 1_025), ('a', 70_000), ('s', 256), ('s', 70_000)]);
                let body: String = std::iter::repeat_n(c, len).collect();
                match c {
                    '9' => {
                        text.push_str(cx.tape.pick_str(&["", "-", "0x", "1e", "0."]));
                        text.push_str(&body);
                    }
                    'a' => text.push_str(&body),
                    _ => {
                        text.push('"');
                        text.push_str(&body);
                        text.push('"');
                    }
                }
                text.push(' ');
                cx.probe("soup-with-a-very-long-token");
                continue;
            }
            text.push_str(if use_hot { cx.tape.pick_str(&hot) } else { cx.tape.pick_str(&alphabet) });
            if cx.tape.chance(sep16, 16) {
                text.push(' ');
            }
        }
        if cx.tape.chance(1, 3) {
            text.push_str(" /end MODULE /end PROJECT");
        }
        let w = Workload { text: text.clone(), spans: Vec::new(), fragment: cx.tape.chance(1, 3), spec_valid: "block \"IF_DATA\" taggedunion { \"X\" struct { int; char[4]; }; block \"B\" (taggedstruct { \"T\" (uint)*; })*; };".to_string(), spec_damaged: cx.tape.pick_str(&["\"", "block", "block \"IF_DATA\" struct { int[", "enum {", "/include", "block \"IF_DATA\" taggedstruct { (\"X\")*; };"]).to_string() };
        cx.event_lazy("token soup", || crate::runner::clip(&text, 600));
        let cfgs = Config::all(w.fragment);
        let cfg = *cx.tape.pick(&cfgs);
        let label = cfg.label(w.fragment);
        let outcome = load_once(cx, &fs, &w, text.as_bytes(), cfg, BTreeMap::new())?;
        cx.event(&format!("{label} -> {outcome}"));
        cx.nontrivial = true;
        cx.sig(&format!("soup|{}|{label}|{outcome}", n.min(13)));
        SimFs::uninstall();
        Ok(())
    }
}

/// supplementary input sampling: small inputs whose *shape* (nesting depth, references to named A2ML types) is
/// extreme rather than their content. The loader must answer with a model or an error: it may neither exhaust the
/// stack (process abort) nor amplify a few hundred bytes into gigabytes.
pub struct C03Nesting;

impl C03Nesting {
    /// every file includes the next one k times: a tree of k^levels loads made of a handful of tiny files, at A2L
    /// level or inside the A2ML block. Files may legitimately be included more than once (a shared header), so the
    /// work allowance is 64 times the size of the tree; unbounded fan-out exceeds any allowance.
    fn include_fanout(&self, cx: &mut Cx, fs: &std::rc::Rc<SimFs>, a2ml_level: bool) -> Result<(), Violation> {
        let k = *cx.tape.pick(&[2usize, 2, 3]);
        let levels = *cx.tape.pick(&[1usize, 3, 6, 10, 14, 18, 22, 26, 31]);
        let ext = if a2ml_level { "aml" } else { "a2l" };
        let quoted = cx.tape.chance(1, 2);
        let q = if quoted { "\"" } else { "" };
        let mut total = 0usize;
        for i in 0..levels {
            let mut t = String::new();
            for _ in 0..k {
                t.push_str(&format!("/include {q}f{}.{ext}{q}\n", i + 1));
            }
            total += t.len();
            fs.put(&format!("/work/f{i}.{ext}"), t.as_bytes());
        }
        let leaf = if a2ml_level { "/* leaf */\n" } else { "/* leaf */ // nothing else\n" };
        total += leaf.len();
        fs.put(&format!("/work/f{levels}.{ext}"), leaf.as_bytes());
        let main = if a2ml_level {
            format!("ASAP2_VERSION 1 71\n/begin PROJECT p \"\"\n/begin MODULE m \"\"\n/begin A2ML\n/include {q}f0.aml{q}\nblock \"IF_DATA\" taggedunion {{ \"X\" int; }};\n/end A2ML\n/begin IF_DATA X 1 /end IF_DATA\n/end MODULE\n/end PROJECT\n")
        } else {
            format!("ASAP2_VERSION 1 71\n/begin PROJECT p \"\"\n/begin MODULE m \"\"\n/include {q}f0.a2l{q}\n/end MODULE\n/end PROJECT\n")
        };
        total += main.len();
        fs.put("/work/fan.a2l", main.as_bytes());
        fs.set_cycle_guard_limit(u32::MAX);
        fs.begin_op(BTreeMap::new(), false);
        let strict = cx.tape.chance(1, 2);
        cx.event(&format!("include fan-out: {levels} levels, every file includes the next one {k} times ({} level), {total} bytes in {} files, strict={strict}", if a2ml_level { "A2ML" } else { "A2L" }, levels + 2));
        if (k as f64).powi(levels as i32) >= 1e6 {
            cx.probe("include-fanout>=10^6-loads");
        }
        let r = sut::load_path(cx, "totality", "/work/fan.a2l", None, strict, total * 64)?;
        let outcome = match &r {
            Ok((_, d)) if d.is_empty() => "Ok".to_string(),
            Ok(_) => "Ok+diagnostics".to_string(),
            Err(e) => sut::err_class(e),
        };
        cx.event(&format!("-> {outcome}"));
        cx.nontrivial = true;
        cx.sig(&format!("fanout|{a2ml_level}|{k}|{}|{strict}|{outcome}", levels.min(15)));
        SimFs::uninstall();
        Ok(())
    }
}

impl Scenario for C03Nesting {
    fn property(&self) -> &'static str {
        "C03"
    }
    fn name(&self) -> &'static str {
        "nesting_and_amplification"
    }
    fn run(&self, cx: &mut Cx) -> Result<(), Violation> {
        let fs = SimFs::new("/work", cx.tape.draw_u64());
        fs.install();
        let shape = cx.tape.draw(11);
        let depth = *cx.tape.pick(&[3usize, 20, 100, 130, 300, 2_000, 20_000, 150_000]);
        if shape >= 9 {
            return self.include_fanout(cx, &fs, shape == 10);
        }
        let mut a2ml = String::new();
        let mut ifdata = String::new();
        let shape_name;
        match shape {
            0 => {
                // uninterpreted IF_DATA: /begin a /begin a ... /end a /end a
                shape_name = "unknown-if_data-blocks";
                let tag = cx.tape.pick_str(&["a", "BLK", "x1"]);
                ifdata.push_str("/begin IF_DATA x ");
                for _ in 0..depth {
                    ifdata.push_str(&format!("/begin {tag} "));
                }
                ifdata.push_str("1 ");
                let closed = if cx.tape.chance(1, 4) { depth / 2 } else { depth };
                for _ in 0..closed {
                    ifdata.push_str(&format!("/end {tag} "));
                }
                ifdata.push_str("/end IF_DATA");
            }
            1 | 2 | 3 => {
                // A2ML types nested in themselves
                let (open, close): (&str, &str) = match shape {
                    1 => ("struct { ", "; }"),
                    2 => ("taggedstruct { \"T\" ", "; }"),
                    _ => ("taggedunion { block \"B\" ", "; }"),
                };
                shape_name = ["", "a2ml-struct-nesting", "a2ml-taggedstruct-nesting", "a2ml-taggedunion-nesting"][shape as usize];
                a2ml.push_str("block \"IF_DATA\" ");
                for _ in 0..depth {
                    a2ml.push_str(open);
                }
                a2ml.push_str("int");
                for _ in 0..depth {
                    a2ml.push_str(close);
                }
                a2ml.push(';');
                ifdata.push_str("/begin IF_DATA ");
                if shape == 1 {
                    ifdata.push('1');
                } else {
                    // data that follows the definition some levels down
                    for _ in 0..depth.min(40) {
                        ifdata.push_str(if shape == 2 { "T " } else { "/begin B " });
                    }
                    ifdata.push_str("1 ");
                    if shape == 3 {
                        for _ in 0..depth.min(40) {
                            ifdata.push_str("/end B ");
                        }
                    }
                }
                ifdata.push_str(" /end IF_DATA");
            }
            4 => {
                // a chain of named types: flat text, deep expanded type
                shape_name = "a2ml-named-chain";
                let kw = cx.tape.pick_str(&["struct", "taggedstruct", "taggedunion"]);
                let member = |i: usize| match kw {
                    "struct" => format!("struct s{i};"),
                    "taggedstruct" => format!("\"T\" taggedstruct s{i};"),
                    _ => format!("\"T\" taggedunion s{i};"),
                };
                let leaf = if kw == "struct" { "int;" } else { "\"T\" int;" };
                let n = depth.min(20_000);
                a2ml.push_str(&format!("{kw} s0 {{ {leaf} }};\n"));
                for i in 1..=n {
                    a2ml.push_str(&format!("{kw} s{i} {{ {} }};\n", member(i - 1)));
                }
                a2ml.push_str(&format!("block \"IF_DATA\" {kw} s{n};"));
                ifdata.push_str("/begin IF_DATA ");
                if kw == "struct" {
                    ifdata.push('1');
                } else {
                    for _ in 0..n.min(50) {
                        ifdata.push_str("T ");
                    }
                    ifdata.push('1');
                }
                ifdata.push_str(" /end IF_DATA");
            }
            5 | 6 => {
                // every level references the previous one k times: the expanded type has k^n nodes
                shape_name = "a2ml-named-fanout";
                let k = *cx.tape.pick(&[2usize, 2, 3, 8]);
                let kw = cx.tape.pick_str(&["struct", "taggedstruct", "taggedunion"]);
                // k^levels up to about 2^22 (struct) / 2^20 (taggedstruct, larger nodes) nodes on a tree without a limit:
                // enough to exceed the memory allowance several times, not enough to exhaust the machine
                let max_levels = match (k, kw) {
                    (2, "struct") => 22,
                    (2, _) => 20,
                    (3, "struct") => 13,
                    (3, _) => 12,
                    (_, "struct") => 7,
                    _ => 6,
                };
                let levels = 1 + cx.tape.draw(max_levels) as usize;
                a2ml.push_str(&format!("{kw} s0 {{ {} }};\n", if kw == "struct" { "int;" } else { "\"L\" int;" }));
                for i in 1..=levels {
                    a2ml.push_str(&format!("{kw} s{i} {{ "));
                    for j in 0..k {
                        if kw == "struct" {
                            a2ml.push_str(&format!("struct s{}; ", i - 1));
                        } else {
                            a2ml.push_str(&format!("\"T{j}\" {kw} s{}; ", i - 1));
                        }
                    }
                    a2ml.push_str("};\n");
                }
                a2ml.push_str(&format!("block \"IF_DATA\" {kw} s{levels};"));
                ifdata.push_str("/begin IF_DATA 1 2 3 /end IF_DATA");
                if k.pow(levels as u32) >= 1 << 20 {
                    cx.probe("named-type-fanout>=2^20-nodes");
                }
            }
            7 => {
                // arrays of arrays and huge dimensions
                shape_name = "a2ml-array-dimensions";
                a2ml.push_str("block \"IF_DATA\" struct { int");
                // plain small dimensions (the nesting is what counts) or a mix with extreme values
                let plain = cx.tape.chance(2, 3);
                for _ in 0..depth {
                    a2ml.push_str(&format!("[{}]", if plain { cx.tape.pick_str(&["1", "2", "3"]) } else { cx.tape.pick_str(&["1", "2", "1000", "4294967295", "0", "-1", "2147483647"]) }));
                }
                a2ml.push_str("; };");
                ifdata.push_str("/begin IF_DATA 1 2 3 /end IF_DATA");
            }
            _ => {
                // unknown (non-strict) blocks of the A2L level nested in themselves, and comments / strings of that size
                shape_name = "unknown-a2l-blocks";
                for _ in 0..depth {
                    ifdata.push_str("/begin UNKNOWN_THING 1 ");
                }
                let closed = if cx.tape.chance(1, 4) { depth / 2 } else { depth };
                for _ in 0..closed {
                    ifdata.push_str("/end UNKNOWN_THING ");
                }
            }
        }
        let spec_arg = !a2ml.is_empty() && cx.tape.chance(1, 3);
        let mut text = String::from("ASAP2_VERSION 1 71\n/begin PROJECT p \"\"\n/begin MODULE m \"\"\n");
        if !a2ml.is_empty() && !spec_arg {
            text.push_str("/begin A2ML\n");
            text.push_str(&a2ml);
            text.push_str("\n/end A2ML\n");
        }
        text.push_str(&ifdata);
        text.push_str("\n/end MODULE\n/end PROJECT\n");
        let strict = cx.tape.chance(1, 3);
        let file_entry = cx.tape.chance(1, 4);
        let spec = if spec_arg { Some(a2ml.clone()) } else { None };
        cx.event_lazy(&format!("{shape_name}, depth parameter {depth}, {} bytes, strict={strict}, a2ml as argument={spec_arg}, file entry={file_entry}", text.len()), || crate::runner::clip(&text, 700));
        if depth >= 2_000 {
            cx.probe("nesting-depth>=2000");
        }
        let total = text.len();
        let r = if file_entry {
            fs.put("/work/deep.a2l", text.as_bytes());
            fs.begin_op(BTreeMap::new(), false);
            sut::load_path(cx, "totality", "/work/deep.a2l", spec, strict, total)?
        } else {
            sut::load_str(cx, "totality", &text, spec, strict)?
        };
        let outcome = match &r {
            Ok((_, d)) if d.is_empty() => "Ok".to_string(),
            Ok(_) => "Ok+diagnostics".to_string(),
            Err(e) => sut::err_class(e),
        };
        // a model that was returned must also be writable and droppable without exhausting the stack
        if let Ok((file, _)) = &r {
            let w = sut::write_str(cx, "totality", file)?;
            std::hint::black_box(w.len());
        }
        crate::runner::guarded(cx, "totality", "drop of the returned model", move || drop(r))?;
        cx.event(&format!("-> {outcome}"));
        cx.nontrivial = true;
        let dclass = match depth {
            0..=20 => 0,
            21..=130 => 1,
            131..=2_000 => 2,
            _ => 3,
        };
        cx.sig(&format!("nest|{shape_name}|{dclass}|{strict}|{spec_arg}|{outcome}"));
        SimFs::uninstall();
        Ok(())
    }
}
