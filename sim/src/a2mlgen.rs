//! Generator for A2ML definitions and IF_DATA instances (conforming to the definition, or described by none).

use crate::gen::{DocGen, Item, Node};
use crate::tape::Tape;

#[derive(Debug, Clone)]
pub enum Ty {
    /// "char" | "int" | "long" | "int64" | "uchar" | "uint" | "ulong" | "uint64"
    Int(&'static str),
    Float,
    Double,
    CharArr(usize),
    Arr(Box<Ty>, usize),
    Enum(Vec<String>),
    Struct(Vec<Ty>),
    Seq(Box<Ty>),
    TStruct(Vec<Member>),
    TUnion(Vec<Member>),
}

#[derive(Debug, Clone)]
pub struct Member {
    pub tag: String,
    pub block: bool,
    pub repeat: bool,
    pub item: Option<Ty>,
}

#[derive(Debug, Clone)]
pub struct A2mlDef {
    pub text: String,
    pub root: Ty,
}

struct AmlGen<'t> {
    t: &'t mut Tape,
    tagno: u32,
    named: Vec<(String, Ty)>, // named structs defined at the top, can be referenced
    pre: String,
    style: u64,
}

const INT_KINDS: [&str; 8] = ["char", "int", "long", "int64", "uchar", "uint", "ulong", "uint64"];

impl AmlGen<'_> {
    fn tag(&mut self) -> String {
        self.tagno += 1;
        let stem = *self.t.pick(&["TAG", "XCP", "Seg", "DAQ_LIST", "k"]);
        format!("{stem}{}", self.tagno)
    }

    fn scalar(&mut self) -> Ty {
        match self.t.draw(12) {
            0..=7 => Ty::Int(*self.t.pick(&INT_KINDS)),
            8 => Ty::Float,
            9 => Ty::Double,
            _ => Ty::CharArr(*self.t.pick(&[1usize, 8, 20, 100])),
        }
    }

    /// sometimes a composite type is declared with a name at the top of the definition and referenced by name
    fn maybe_named(&mut self, ty: Ty, depth: u32, stem: &str) -> Ty {
        if depth <= 2 && self.named.len() < 4 && self.t.chance(1, 3) {
            let name = format!("Named_{stem}_{}", self.named.len());
            self.named.push((name, ty.clone()));
        }
        ty
    }

    fn ty(&mut self, depth: u32) -> Ty {
        let k = if depth >= 3 { self.t.draw(5) } else { self.t.draw(11) };
        match k {
            0..=3 => self.scalar(),
            4 => {
                let n = 1 + self.t.draw(4) as usize;
                let mut items = Vec::new();
                for i in 0..n {
                    items.push(format!("ITEM_{}_{i}", self.tagno));
                }
                self.tagno += 1;
                self.maybe_named(Ty::Enum(items), depth, "enum")
            }
            5 => {
                let base = match self.t.draw(4) {
                    0 => Ty::Int(*self.t.pick(&INT_KINDS)),
                    1 => Ty::Float,
                    // an array whose element may match zero tokens
                    2 if depth <= 2 => Ty::TStruct(self.members(depth + 2, true)),
                    _ => Ty::Int("uint"),
                };
                // mostly small dimensions; a damaged or careless specification may carry a huge one
                let dim = match self.t.draw(12) {
                    0 => 40_000,
                    1 => 2_000_000_000,
                    _ => 1 + self.t.draw(4) as usize,
                };
                if matches!(base, Ty::TStruct(_)) { Ty::Arr(Box::new(base), dim) } else { Ty::Arr(Box::new(base), dim.min(5)) }
            }
            6 | 7 => {
                let n = 1 + self.t.draw(4);
                let mut members = Vec::new();
                for i in 0..n {
                    // a tagged struct or union in the middle of a struct is legal; scalars dominate
                    let m = if i + 1 == n && self.t.chance(1, 3) { self.ty(depth + 1) } else { self.scalar() };
                    members.push(m);
                }
                self.maybe_named(Ty::Struct(members), depth, "struct")
            }
            8 | 9 => {
                let m = self.members(depth + 1, true);
                self.maybe_named(Ty::TStruct(m), depth, "taggedstruct")
            }
            _ => {
                let m = self.members(depth + 1, false);
                self.maybe_named(Ty::TUnion(m), depth, "taggedunion")
            }
        }
    }

    fn members(&mut self, depth: u32, allow_repeat: bool) -> Vec<Member> {
        let n = 1 + self.t.draw(4);
        let mut out = Vec::new();
        for _ in 0..n {
            self.t.begin_group();
            let tag = self.tag();
            let block = self.t.chance(1, 3);
            let repeat = allow_repeat && self.t.chance(1, 3);
            let item = match self.t.draw(9) {
                // ("TAG")*; is valid A2ML but not accepted by the library's A2ML parser: a repeated member always gets a type here
                0 if !repeat => None,
                1 => Some(Ty::Seq(Box::new(self.scalar()))),
                // a sequence whose element may match zero tokens (tagged struct / union, struct of them)
                2 if depth <= 2 => {
                    let inner = match self.t.draw(3) {
                        0 => Ty::TStruct(self.members(depth + 2, true)),
                        1 => Ty::TUnion(self.members(depth + 2, false)),
                        _ => Ty::Struct(vec![self.scalar(), Ty::TStruct(self.members(depth + 2, true))]),
                    };
                    Some(Ty::Seq(Box::new(inner)))
                }
                _ => Some(self.ty(depth)),
            };
            out.push(Member { tag, block, repeat, item });
            self.t.end_group();
        }
        out
    }

    fn nl(&mut self, indent: usize) -> String {
        match self.style {
            0 => " ".to_string(),
            _ => format!("\n{}", "  ".repeat(indent)),
        }
    }

    fn ty_text(&mut self, ty: &Ty, indent: usize) -> String {
        match ty {
            Ty::Int(k) => (*k).to_string(),
            Ty::Float => "float".to_string(),
            Ty::Double => "double".to_string(),
            Ty::CharArr(n) => format!("char[{n}]"),
            Ty::Arr(base, n) => format!("{}[{n}]", self.ty_text(base, indent)),
            Ty::Enum(items) => {
                if let Some((name, _)) = self.named.iter().find(|(_, t)| ty_eq(t, ty)) {
                    return format!("enum {name}");
                }
                let mut s = String::from("enum {");
                for (i, it) in items.iter().enumerate() {
                    if i > 0 {
                        s.push(',');
                    }
                    s.push_str(&self.nl(indent + 1));
                    if self.t.chance(1, 2) {
                        s.push_str(&format!("\"{it}\" = {i}"));
                    } else {
                        s.push_str(&format!("\"{it}\""));
                    }
                }
                s.push_str(&self.nl(indent));
                s.push('}');
                s
            }
            Ty::Struct(members) => {
                if let Some((name, _)) = self.named.iter().find(|(_, t)| ty_eq(t, ty)) {
                    return format!("struct {name}");
                }
                self.struct_body_text(members, indent)
            }
            Ty::Seq(_) => unreachable!("sequences only occur directly below a tag"),
            Ty::TStruct(members) => {
                if let Some((name, _)) = self.named.iter().find(|(_, t)| ty_eq(t, ty)) {
                    return format!("taggedstruct {name}");
                }
                let mut s = String::from("taggedstruct {");
                for m in members {
                    s.push_str(&self.nl(indent + 1));
                    s.push_str(&self.member_text(m, indent + 1));
                }
                s.push_str(&self.nl(indent));
                s.push('}');
                s
            }
            Ty::TUnion(members) => {
                if let Some((name, _)) = self.named.iter().find(|(_, t)| ty_eq(t, ty)) {
                    return format!("taggedunion {name}");
                }
                let mut s = String::from("taggedunion {");
                for m in members {
                    s.push_str(&self.nl(indent + 1));
                    s.push_str(&self.member_text(m, indent + 1));
                }
                s.push_str(&self.nl(indent));
                s.push('}');
                s
            }
        }
    }

    fn struct_body_text(&mut self, members: &[Ty], indent: usize) -> String {
        let mut s = String::from("struct {");
        for m in members {
            s.push_str(&self.nl(indent + 1));
            s.push_str(&self.ty_text(m, indent + 1));
            s.push(';');
            if self.style == 2 && self.t.chance(1, 4) {
                s.push_str(" /* member */");
            }
        }
        s.push_str(&self.nl(indent));
        s.push('}');
        s
    }

    fn member_text(&mut self, m: &Member, indent: usize) -> String {
        let mut s = String::new();
        if m.repeat {
            s.push('(');
        }
        if m.block {
            s.push_str("block ");
        }
        s.push_str(&format!("\"{}\"", m.tag));
        match &m.item {
            None => {}
            Some(Ty::Seq(inner)) => {
                s.push_str(" (");
                s.push_str(&self.ty_text(inner, indent));
                s.push_str(")*");
            }
            Some(t) => {
                s.push(' ');
                s.push_str(&self.ty_text(t, indent));
            }
        }
        if m.repeat {
            s.push_str(")*");
        }
        s.push(';');
        if self.style == 2 && self.t.chance(1, 5) {
            s.push_str(" // tagged member");
        }
        s
    }
}

fn ty_eq(a: &Ty, b: &Ty) -> bool {
    format!("{a:?}") == format!("{b:?}")
}

/// generate an A2ML definition (text of the A2ML block without /begin A2ML ... /end A2ML)
pub fn gen_a2ml(t: &mut Tape) -> A2mlDef {
    t.begin_group();
    let def = gen_a2ml_inner(t);
    t.end_group();
    def
}

fn gen_a2ml_inner(t: &mut Tape) -> A2mlDef {
    let style = t.draw(3);
    let mut g = AmlGen { t, tagno: 0, named: Vec::new(), pre: String::new(), style };
    let root = if g.t.chance(5, 6) { Ty::TUnion(g.members(0, false)) } else { Ty::TStruct(g.members(0, true)) };
    // named structs must be defined before they are referenced
    let named = g.named.clone();
    let mut pre = String::new();
    let saved = std::mem::take(&mut g.named);
    for (name, ty) in &named {
        // the body is rendered while no name is known, so it is self-contained
        let (kw, body) = match ty {
            Ty::Struct(members) => ("struct", g.struct_body_text(members, 2)),
            Ty::Enum(_) => ("enum", g.ty_text(ty, 2)),
            Ty::TStruct(_) => ("taggedstruct", g.ty_text(ty, 2)),
            Ty::TUnion(_) => ("taggedunion", g.ty_text(ty, 2)),
            _ => continue,
        };
        pre.push_str(&format!("    {kw} {name} {};\n", &body[kw.len()..]));
    }
    g.named = saved;
    g.pre = pre;
    let mut text = String::new();
    if g.style == 2 {
        text.push_str("    /* generated A2ML */\n");
    }
    text.push_str(&g.pre.clone());
    text.push_str("    block \"IF_DATA\" ");
    let root_text = g.ty_text(&root, 2);
    text.push_str(&root_text);
    text.push(';');
    if g.style == 2 && g.t.chance(1, 2) {
        text.push_str("\n    // trailing comment with /end inside");
    }
    A2mlDef { text, root }
}

// ------------------------------------------------------------------------------------------------
// IF_DATA instances

fn int_range(kind: &str) -> (i128, i128, u32) {
    match kind {
        "char" => (-128, 127, 8),
        "int" => (-32768, 32767, 16),
        "long" => (-2_147_483_648, 2_147_483_647, 32),
        "int64" => (i128::from(i64::MIN), i128::from(i64::MAX), 64),
        "uchar" => (0, 255, 8),
        "uint" => (0, 65535, 16),
        "ulong" => (0, 4_294_967_295, 32),
        _ => (0, i128::from(u64::MAX), 64),
    }
}

fn instance(g: &mut DocGen, ty: &Ty, out: &mut Vec<Item>, depth: u32) {
    match ty {
        Ty::Int(kind) => {
            let (lo, hi, bits) = int_range(kind);
            let s = g.int_lit(lo, hi, bits);
            out.push(Item::Tok(s));
        }
        Ty::Float => {
            let s = g.float_lit(false);
            out.push(Item::Tok(s));
        }
        Ty::Double => {
            let s = g.float_lit(true);
            out.push(Item::Tok(s));
        }
        Ty::CharArr(n) => {
            let mut c = g.string_content();
            if g.t.chance(1, 8) {
                // longer than the array (the library diagnoses this or falls back to uninterpreted data), with a
                // multi-byte character straddling the limit
                while c.len() <= *n {
                    c.push_str(g.t.pick_str(&["Größe", "°", "日本", "x", "😀"]));
                }
            } else {
                while c.len() > *n {
                    c.pop();
                }
            }
            let lit = g.string_literal(&c);
            out.push(Item::Tok(lit));
        }
        Ty::Arr(base, n) => {
            if matches!(**base, Ty::TStruct(_)) {
                // every element may be empty: emit content for the first one only
                instance(g, base, out, depth + 1);
            } else {
                for _ in 0..*n {
                    instance(g, base, out, depth + 1);
                }
            }
        }
        Ty::Enum(items) => {
            let it = g.t.pick(items).clone();
            out.push(Item::Tok(it));
        }
        Ty::Struct(members) => {
            for m in members {
                instance(g, m, out, depth + 1);
            }
        }
        Ty::Seq(inner) => {
            let n = if matches!(**inner, Ty::TStruct(_) | Ty::TUnion(_)) { g.t.draw(2) } else { g.t.draw(4) };
            for _ in 0..n {
                instance(g, inner, out, depth + 1);
            }
        }
        Ty::TStruct(members) => {
            let mut order: Vec<usize> = (0..members.len()).collect();
            for i in (1..order.len()).rev() {
                let j = g.t.draw(i as u64 + 1) as usize;
                order.swap(i, j);
            }
            for idx in order {
                let m = &members[idx];
                let n = if m.repeat { g.t.draw(4) } else { g.t.draw(2) };
                for _ in 0..n {
                    tagged_instance(g, m, out, depth);
                }
            }
        }
        Ty::TUnion(members) => {
            if g.t.chance(7, 8) {
                let m = g.t.pick(members).clone();
                tagged_instance(g, &m, out, depth);
            }
        }
    }
}

fn tagged_instance(g: &mut DocGen, m: &Member, out: &mut Vec<Item>, depth: u32) {
    g.t.begin_group();
    tagged_instance_inner(g, m, out, depth);
    g.t.end_group();
}

fn tagged_instance_inner(g: &mut DocGen, m: &Member, out: &mut Vec<Item>, depth: u32) {
    if m.block {
        let mut node = Node { tag: m.tag.clone(), block: true, body: Vec::new(), name: None };
        if let Some(t) = &m.item {
            instance(g, t, &mut node.body, depth + 1);
        }
        out.push(Item::Node(node));
    } else {
        out.push(Item::Tok(m.tag.clone()));
        if let Some(t) = &m.item {
            instance(g, t, out, depth + 1);
        }
    }
}

fn unknown_body(g: &mut DocGen, out: &mut Vec<Item>, depth: u32) {
    let n = g.t.draw(6);
    for _ in 0..n {
        match g.t.draw(8) {
            0 | 1 => {
                let s = g.int_lit(0, i128::from(u64::MAX), 64);
                out.push(Item::Tok(s));
            }
            2 => {
                let s = g.float_lit(true);
                out.push(Item::Tok(s));
            }
            3 => {
                let c = g.string_content();
                let lit = g.string_literal(&c);
                out.push(Item::Tok(lit));
            }
            // identifiers; behind a block an identifier is read as the tag of a keyword-style item, so the names of the
            // blocks are in the pool too: the same tag then occurs in block form and in keyword form in one parent
            4 | 5 => out.push(Item::Tok((*g.t.pick(&["SOME_IDENT", "x.y[3]", "ENUM_VAL", "UNKNOWN_TAG", "Q", "DAQ", "SUB_BLOCK"])).to_string())),
            _ => {
                if depth < 3 && g.opts.ifdata_a2ml_block && g.t.chance(1, 6) {
                    // a block named A2ML inside IF_DATA: the tokenizer hands its whole content over as one text token
                    let mut node = Node { tag: "A2ML".to_string(), block: true, body: Vec::new(), name: None };
                    node.body.push(Item::Tok((*g.t.pick(&["\"\"", "\"x\"", "abc", "\"a b\" 1", "struct { int; };"])).to_string()));
                    out.push(Item::Node(node));
                } else if depth < 3 {
                    let mut node = Node { tag: (*g.t.pick(&["Q", "SUB_BLOCK", "DAQ"])).to_string(), block: true, body: Vec::new(), name: None };
                    unknown_body(g, &mut node.body, depth + 1);
                    out.push(Item::Node(node));
                }
            }
        }
    }
}

/// body of one IF_DATA block: conforming to the file's A2ML if there is one (mostly), or described by nothing
pub fn gen_ifdata_body(g: &mut DocGen, def: Option<&A2mlDef>, out: &mut Vec<Item>) {
    match def {
        Some(d) if g.t.chance(5, 6) => instance(g, &d.root, out, 0),
        _ => {
            // by convention the content starts with a tag
            if g.t.chance(7, 8) {
                out.push(Item::Tok((*g.t.pick(&["VENDOR_X", "CANAPE_EXT", "ASAP1B_CCP"])).to_string()));
                unknown_body(g, out, 0);
            }
        }
    }
}
