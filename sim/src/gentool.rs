//! `a2lsim gen <n> [seed] [--dump i]`: validate the workload generator against the tree under test.
//! Every generated document must strict-load with zero diagnostics on the unchanged tree.

use crate::gen::{feats_string, merge_feats, render_nodes, DocGen, GenOpts, LayoutOpts};
use crate::tape::{mix, Tape};
use std::collections::BTreeSet;

pub fn gen_doc(t: &mut Tape) -> (String, crate::gen::Features, usize) {
    let opts = GenOpts::swarm(t);
    let lo = LayoutOpts::swarm(t);
    let mut g = DocGen::new(t, opts);
    let nodes = g.document();
    let f1 = g.feats.clone();
    let n: usize = nodes.iter().map(crate::gen::Node::count_nodes).sum();
    let r = render_nodes(t, &nodes, &lo, 0);
    (r.text, merge_feats(&f1, &r.feats), n)
}

pub fn run(args: &[String]) -> i32 {
    let n: u64 = args.first().and_then(|s| s.parse().ok()).unwrap_or(100);
    let seed: u64 = args.get(1).and_then(|s| s.parse().ok()).unwrap_or(1);
    let dump: Option<u64> = args.iter().position(|a| a == "--dump").and_then(|i| args.get(i + 1)).and_then(|s| s.parse().ok());
    let mut ok = 0;
    let mut warn = 0;
    let mut fail = 0;
    let mut tags = BTreeSet::new();
    let mut bytes = 0usize;
    for i in 0..n {
        let res = std::thread::Builder::new()
            .stack_size(8 << 20)
            .spawn(move || {
                let mut t = Tape::from_seed(mix(seed, i));
                let (text, feats, nodes) = gen_doc(&mut t);
                let r = std::panic::catch_unwind(|| a2lfile::load_from_string(&text, None, true));
                (text, feats, nodes, r)
            })
            .unwrap()
            .join()
            .unwrap();
        let (text, feats, nodes, r) = res;
        bytes += text.len();
        if dump == Some(i) {
            println!("{text}");
            println!("---- features: {} nodes: {nodes}", feats_string(&feats));
        }
        match r {
            Ok(Ok((file, msgs))) => {
                if msgs.is_empty() {
                    ok += 1;
                } else {
                    warn += 1;
                    if warn <= 5 {
                        println!("doc {i}: {} diagnostics, first: {}", msgs.len(), msgs[0]);
                    }
                }
                let w = file.write_to_string();
                for l in w.lines() {
                    let l = l.trim_start();
                    if let Some(rest) = l.strip_prefix("/begin ") {
                        tags.insert(rest.split_whitespace().next().unwrap_or("").to_string());
                    }
                }
            }
            Ok(Err(e)) => {
                fail += 1;
                if fail <= 8 {
                    println!("doc {i}: load error: {e}  [features: {}]", feats_string(&feats));
                }
            }
            Err(_) => {
                fail += 1;
                println!("doc {i}: PANIC  [features: {}]", feats_string(&feats));
            }
        }
    }
    println!("generated {n} documents ({} KiB): {ok} clean, {warn} with diagnostics, {fail} rejected; {} distinct block kinds seen", bytes / 1024, tags.len());
    i32::from(fail + warn > 0)
}

/// `a2lsim rt <file> [cycles]`: manual experiment helper: load the text of a real file with load_from_string, print k write/reload cycles
pub fn roundtrip(args: &[String]) -> i32 {
    let text = std::fs::read_to_string(&args[0]).expect("read input");
    let k: usize = args.get(1).and_then(|s| s.parse().ok()).unwrap_or(3);
    let mut cur = text;
    let mut prev: Option<a2lfile::A2lFile> = None;
    for i in 0..k {
        match a2lfile::load_from_string(&cur, None, false) {
            Ok((f, msgs)) => {
                if let Some(p) = &prev {
                    println!("model equal to previous: {}", *p == f);
                    if *p != f {
                        println!("{}", crate::c01::model_diff(p, &f));
                    }
                }
                prev = Some(f.clone());
                let w = f.write_to_string();
                println!("---- W{} ({} bytes, {} diagnostics) ----\n{}", i + 1, w.len(), msgs.len(), w.replace('\r', "<CR>"));
                cur = w;
            }
            Err(e) => {
                println!("---- load {} failed: {e}", i + 1);
                return 1;
            }
        }
    }
    0
}

/// `a2lsim rtfile <path> [cycles]`: load a real file (with includes), write it next to it as <path>.out<i>, reload; print each written text
pub fn roundtrip_file(args: &[String]) -> i32 {
    let k: usize = args.get(1).and_then(|s| s.parse().ok()).unwrap_or(3);
    let mut cur = args[0].clone();
    for i in 0..k {
        match a2lfile::load(&cur, None, false) {
            Ok((f, msgs)) => {
                let out = format!("{}.out{}", args[0], i + 1);
                f.write(&out, None).expect("write");
                println!("---- {out} ({} diagnostics) ----\n{}", msgs.len(), std::fs::read_to_string(&out).unwrap());
                cur = out;
            }
            Err(e) => {
                println!("---- load of {cur} failed: {e}");
                return 1;
            }
        }
    }
    0
}

/// `a2lsim dbgmodpar <file>`: print the Debug rendering of MOD_PAR before and after one write/reload (triage helper)
pub fn dbgmodpar(args: &[String]) -> i32 {
    let (f, _) = a2lfile::load(&args[0], None, false).expect("load");
    let w = f.write_to_string();
    let (f2, _) = a2lfile::load_from_string(&w, None, false).expect("reload");
    for (a, b) in f.project.module.iter().zip(f2.project.module.iter()) {
        let da = format!("{:#?}", a.mod_par);
        let db = format!("{:#?}", b.mod_par);
        println!("mod_par equal: {}", a.mod_par == b.mod_par);
        if let (Some(pa), Some(pb)) = (&a.mod_par, &b.mod_par) {
            for (la, lb) in pa.memory_layout.iter().zip(pb.memory_layout.iter()) {
                for (ia, ib) in la.if_data.iter().zip(lb.if_data.iter()) {
                    let mut ra = String::new();
                    let mut rb = String::new();
                    if let Some(d) = &ia.ifdata_items { crate::c01::ifdata_repr(d, &mut ra); }
                    if let Some(d) = &ib.ifdata_items { crate::c01::ifdata_repr(d, &mut rb); }
                    println!("A valid={} {ra}\nB valid={} {rb}", ia.ifdata_valid, ib.ifdata_valid);
                }
            }
        }
        if a.mod_par == b.mod_par { continue; }
        if true { continue; }
        for (la, lb) in da.lines().zip(db.lines()) {
            if la != lb && !la.contains("line:") && !la.contains("uid:") && !la.contains("offset") {
                println!("- {la}\n+ {lb}");
            }
        }
    }
    0
}
