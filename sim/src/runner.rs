//! Run executor, parallel search driver, shrinker, replay files, evidence.

use crate::hashseed;
use crate::tape::{count_groups, count_values, from_json, hash_bytes, hash_str, mix, to_json, TNode, Tape};
use serde_json::{json, Value};
use std::any::Any;
use std::cell::RefCell;
use std::collections::{BTreeMap, BTreeSet};
use std::panic::{catch_unwind, AssertUnwindSafe};
use std::sync::atomic::{AtomicU64, AtomicUsize, Ordering};
use std::sync::Mutex;
use std::time::Instant;

#[derive(Clone, Copy, PartialEq, Eq, Debug)]
pub enum Tier {
    Quick,
    Thorough,
}

impl Tier {
    pub fn name(self) -> &'static str {
        match self {
            Tier::Quick => "quick",
            Tier::Thorough => "thorough",
        }
    }
}

#[derive(Clone, Debug)]
pub struct Violation {
    pub oracle: String,
    pub class: String,
    pub detail: String,
    pub triggers: BTreeSet<String>,
}

impl Violation {
    pub fn key(&self) -> String {
        format!("{}|{}", self.oracle, self.class)
    }
}

/// Per-run context handed to a scenario
pub struct Cx {
    pub tape: Tape,
    pub tier: Tier,
    pub render: bool,
    pub log: Vec<String>,
    pub digest: u64,
    pub evals: u64,
    pub nontrivial: bool,
    pub vacuous: bool,
    pub sigs: BTreeSet<u64>,
    pub faults: BTreeMap<String, u64>,
    pub probes: BTreeMap<String, u64>,
    pub triggers: BTreeSet<String>,
    pub max_ticks_per_kib: u64,
    pub max_peak_bytes: usize,
    /// library calls after which the run is cut short (only while a violation is minimised)
    pub eval_cap: u64,
    pub hash_order_class: u64,
}

impl Cx {
    fn new(tape: Tape, tier: Tier, render: bool) -> Cx {
        Cx {
            tape,
            tier,
            render,
            log: Vec::new(),
            digest: 0,
            evals: 0,
            nontrivial: false,
            vacuous: false,
            sigs: BTreeSet::new(),
            faults: BTreeMap::new(),
            probes: BTreeMap::new(),
            triggers: BTreeSet::new(),
            max_ticks_per_kib: 0,
            max_peak_bytes: 0,
            eval_cap: SHRINK_EVAL_CAP.load(std::sync::atomic::Ordering::SeqCst),
            hash_order_class: 0,
        }
    }

    /// a secondary context (own tape) for code that is executed identically in two threads
    pub fn sub(tape: Tape, tier: Tier, render: bool) -> Cx {
        Cx::new(tape, tier, render)
    }

    /// record an event: always part of the digest, only kept as text when rendering
    pub fn event(&mut self, text: &str) {
        self.digest = hash_bytes(self.digest.rotate_left(5), text.as_bytes());
        if self.render {
            self.log.push(text.to_string());
        }
    }

    /// like event(), but the text is only built when needed for rendering; digest gets the short key
    pub fn event_lazy<F: FnOnce() -> String>(&mut self, key: &str, f: F) {
        self.digest = hash_bytes(self.digest.rotate_left(5), key.as_bytes());
        if self.render {
            let t = f();
            self.log.push(format!("{key}: {t}"));
        }
    }

    pub fn digest_bytes(&mut self, data: &[u8]) {
        self.digest = hash_bytes(self.digest.rotate_left(7), data);
    }

    pub fn probe(&mut self, name: &str) {
        *self.probes.entry(name.to_string()).or_insert(0) += 1;
    }

    pub fn fault_fired(&mut self, name: &str) {
        *self.faults.entry(name.to_string()).or_insert(0) += 1;
    }

    pub fn trigger(&mut self, name: &str) {
        self.triggers.insert(name.to_string());
    }

    pub fn sig(&mut self, parts: &str) {
        self.sigs.insert(hash_str(parts));
    }

    pub fn fail(&self, oracle: &str, class: &str, detail: String) -> Violation {
        Violation {
            oracle: oracle.to_string(),
            class: class.to_string(),
            detail,
            triggers: self.triggers.clone(),
        }
    }
}

pub trait Scenario: Sync + Send {
    fn property(&self) -> &'static str;
    fn name(&self) -> &'static str;
    fn run(&self, cx: &mut Cx) -> Result<(), Violation>;
    /// false for scenarios that never touch a std HashMap or the stack-hungry parser: they run in the worker thread
    fn fresh_thread(&self) -> bool {
        true
    }
}

// ------------------------------------------------------------------------------------------------
// panic capture

thread_local! {
    static LAST_PANIC: RefCell<Option<(String, String)>> = const { RefCell::new(None) };
}

pub fn install_panic_hook() {
    let verbose = std::env::var("VERIF_DEBUG").is_ok();
    std::panic::set_hook(Box::new(move |info| {
        let loc = info
            .location()
            .map(|l| format!("{}:{}", l.file(), l.line()))
            .unwrap_or_else(|| "unknown".to_string());
        let msg = if let Some(s) = info.payload().downcast_ref::<&str>() {
            (*s).to_string()
        } else if let Some(s) = info.payload().downcast_ref::<String>() {
            s.clone()
        } else if info.payload().downcast_ref::<a2lfile::verif_hooks::FuelExhausted>().is_some() {
            "fuel exhausted".to_string()
        } else {
            "non-string panic payload".to_string()
        };
        if verbose {
            eprintln!("[panic] {loc}: {msg}");
        }
        LAST_PANIC.with(|p| *p.borrow_mut() = Some((loc, msg)));
    }));
}

/// run a closure that calls into the library; a panic becomes a Violation
pub fn guarded<T, F: FnOnce() -> T>(cx: &Cx, oracle: &str, what: &str, f: F) -> Result<T, Violation> {
    LAST_PANIC.with(|p| *p.borrow_mut() = None);
    match catch_unwind(AssertUnwindSafe(f)) {
        Ok(v) => Ok(v),
        Err(payload) => Err(panic_violation(cx, oracle, what, payload)),
    }
}

fn shorten_loc(loc: &str) -> String {
    // /repo/a2lfile/src/tokenizer.rs:534 -> a2lfile/src/tokenizer.rs:534 ; strips rustc's /rustc/<hash>/ prefix too
    if let Some(idx) = loc.find("a2lfile/src/") {
        loc[idx..].to_string()
    } else if let Some(idx) = loc.find("/library/") {
        loc[idx + 1..].to_string()
    } else {
        loc.to_string()
    }
}

fn panic_violation(cx: &Cx, oracle: &str, what: &str, payload: Box<dyn Any + Send>) -> Violation {
    let last = LAST_PANIC.with(|p| p.borrow_mut().take());
    let (loc, msg) = last.unwrap_or_else(|| ("unknown".into(), "unknown".into()));
    if payload.downcast_ref::<a2lfile::verif_hooks::FuelExhausted>().is_some() {
        return cx.fail(oracle, "hang:fuel-exhausted", format!("{what}: the step budget was used up without finishing"));
    }
    if loc.contains("sim/src/") {
        // a bug in the harness, not in the system under test
        eprintln!("HARNESS PANIC at {loc}: {msg}");
        return cx.fail("harness", &format!("harness-panic@{}", shorten_loc(&loc)), format!("{what}: {msg}"));
    }
    cx.fail(oracle, &format!("panic@{}", shorten_loc(&loc)), format!("{what}: {msg}"))
}

// ------------------------------------------------------------------------------------------------
// executing one run in a fresh thread

pub struct RunResult {
    pub violation: Option<Violation>,
    pub tape: Vec<TNode>,
    pub log: Vec<String>,
    pub digest: u64,
    pub evals: u64,
    pub nontrivial: bool,
    pub vacuous: bool,
    pub sigs: BTreeSet<u64>,
    pub faults: BTreeMap<String, u64>,
    pub probes: BTreeMap<String, u64>,
    pub max_ticks_per_kib: u64,
    pub max_peak_bytes: usize,
    pub hash_order_class: u64,
}

pub const RUN_STACK: usize = 8 * 1024 * 1024;
/// wall-clock backstop per run (seconds); runs normally take milliseconds
pub const WATCHDOG_SECS: u64 = 300;

pub fn exec_run(scn: &dyn Scenario, tape: Tape, tier: Tier, render: bool) -> RunResult {
    if !scn.fresh_thread() {
        return exec_run_here(scn, tape, tier, render, false);
    }
    std::thread::scope(|s| {
        std::thread::Builder::new()
            .stack_size(RUN_STACK)
            .spawn_scoped(s, move || exec_run_here(scn, tape, tier, render, true))
            .expect("spawn run thread")
            .join()
            .expect("run thread died")
    })
}

fn exec_run_here(scn: &dyn Scenario, tape: Tape, tier: Tier, render: bool, set_keys: bool) -> RunResult {
    let mut cx = Cx::new(tape, tier, render);
    let k0 = cx.tape.draw_u64();
    let k1 = cx.tape.draw_u64();
    if set_keys {
        hashseed::set_thread_key(k0, k1);
        cx.hash_order_class = hashseed::order_class_here();
    }
    LAST_PANIC.with(|p| *p.borrow_mut() = None);
    let res = catch_unwind(AssertUnwindSafe(|| scn.run(&mut cx)));
    a2lfile::verif_hooks::install_vfs(None);
    a2lfile::verif_hooks::set_fuel(None);
    let violation = match res {
        Ok(Ok(())) => None,
        Ok(Err(v)) => Some(v),
        Err(payload) => Some(panic_violation(&cx, "no-panic", "unguarded call", payload)),
    };
    if let Some(v) = &violation {
        let line = format!("VIOLATED oracle={} class={} :: {}", v.oracle, v.class, v.detail);
        cx.event(&line);
    }
    RunResult {
        violation,
        tape: cx.tape.take_record(),
        log: std::mem::take(&mut cx.log),
        digest: cx.digest,
        evals: cx.evals,
        nontrivial: cx.nontrivial,
        vacuous: cx.vacuous,
        sigs: std::mem::take(&mut cx.sigs),
        faults: std::mem::take(&mut cx.faults),
        probes: std::mem::take(&mut cx.probes),
        max_ticks_per_kib: cx.max_ticks_per_kib,
        max_peak_bytes: cx.max_peak_bytes,
        hash_order_class: cx.hash_order_class,
    }
}

/// run a closure in a fresh thread with other hash keys (used for "same model, other hash order")
pub fn with_hash_keys<T: Send, F: FnOnce() -> T + Send>(k0: u64, k1: u64, f: F) -> T {
    std::thread::scope(|s| {
        std::thread::Builder::new()
            .stack_size(RUN_STACK)
            .spawn_scoped(s, move || {
                hashseed::set_thread_key(k0, k1);
                f()
            })
            .expect("spawn helper thread")
            .join()
            .expect("helper thread died")
    })
}

// ------------------------------------------------------------------------------------------------
// shrinking

pub struct ShrinkStats {
    pub executions: u32,
    pub from_len: usize,
    pub to_len: usize,
}

/// While a violation is being minimised, a candidate run that has already made more library calls than the
/// violating run needed (with a margin) cannot be a smaller reproduction of it: it is cut short. This matters for
/// scenarios whose runs go on for a long time after the point of the violation (fault enumeration).
pub static SHRINK_EVAL_CAP: std::sync::atomic::AtomicU64 = std::sync::atomic::AtomicU64::new(u64::MAX);

fn still_fails(scn: &dyn Scenario, tier: Tier, key: &str, cand: &[TNode]) -> Option<(Vec<TNode>, Violation)> {
    let r = exec_run(scn, Tape::from_replay(cand.to_vec()), tier, false);
    match r.violation {
        Some(v) if v.key() == key => Some((r.tape, v)),
        _ => None,
    }
}

/// paths (child indices from the root) of all group nodes with their number of values, largest first
fn group_paths(nodes: &[TNode]) -> Vec<(Vec<usize>, usize)> {
    fn walk(nodes: &[TNode], prefix: &mut Vec<usize>, out: &mut Vec<(Vec<usize>, usize)>) {
        for (i, n) in nodes.iter().enumerate() {
            if let TNode::G(c) = n {
                prefix.push(i);
                out.push((prefix.clone(), count_values(c) + count_groups(c)));
                walk(c, prefix, out);
                prefix.pop();
            }
        }
    }
    let mut out = Vec::new();
    walk(nodes, &mut Vec::new(), &mut out);
    out.sort_by(|a, b| b.1.cmp(&a.1).then(a.0.cmp(&b.0)));
    out
}

fn value_paths(nodes: &[TNode]) -> Vec<Vec<usize>> {
    fn walk(nodes: &[TNode], prefix: &mut Vec<usize>, out: &mut Vec<Vec<usize>>) {
        for (i, n) in nodes.iter().enumerate() {
            prefix.push(i);
            match n {
                TNode::V(v) => {
                    if *v != 0 {
                        out.push(prefix.clone());
                    }
                }
                TNode::G(c) => walk(c, prefix, out),
            }
            prefix.pop();
        }
    }
    let mut out = Vec::new();
    walk(nodes, &mut Vec::new(), &mut out);
    out
}

/// apply `f` to the node list that contains the node at `path` and the node's index in it
fn with_parent<F: FnOnce(&mut Vec<TNode>, usize)>(nodes: &mut Vec<TNode>, path: &[usize], f: F) {
    if path.len() == 1 {
        if path[0] < nodes.len() {
            f(nodes, path[0]);
        }
    } else if let Some(TNode::G(c)) = nodes.get_mut(path[0]) {
        with_parent(c, &path[1..], f);
    }
}

fn size(nodes: &[TNode]) -> (usize, usize) {
    (count_values(nodes), count_groups(nodes))
}

/// hierarchical tape reduction: delete groups, empty groups, lower values; always keep the same violation class
pub fn shrink(scn: &dyn Scenario, tier: Tier, tape: Vec<TNode>, v: Violation, max_exec: u32, max_secs: f64) -> (Vec<TNode>, Violation, ShrinkStats) {
    let key = v.key();
    let start = Instant::now();
    // how many library calls does the violating run make?
    let evals0 = exec_run(scn, Tape::from_replay(tape.clone()), tier, false).evals;
    SHRINK_EVAL_CAP.store(evals0.saturating_mul(2).saturating_add(8), std::sync::atomic::Ordering::SeqCst);
    let mut best = tape;
    let mut bestv = v;
    let mut execs = 0u32;
    let from_len = count_values(&best);
    let over = |execs: u32| execs >= max_exec || start.elapsed().as_secs_f64() > max_secs;

    let mut improved = true;
    let mut round = 0;
    while improved && !over(execs) {
        improved = false;
        round += 1;
        // pass 1: delete whole groups / empty them, largest first. After a success the tree is re-enumerated.
        let mut skip = 0usize;
        'groups: loop {
            if over(execs) {
                break;
            }
            let paths = group_paths(&best);
            let mut progressed = false;
            for (path, sz) in paths.iter().skip(skip) {
                if over(execs) {
                    break 'groups;
                }
                skip += 1;
                if *sz == 0 {
                    continue;
                }
                // (a) delete the group
                let mut cand = best.clone();
                with_parent(&mut cand, path, |p, i| {
                    p.remove(i);
                });
                execs += 1;
                if let Some((t, nv)) = still_fails(scn, tier, &key, &cand) {
                    if size(&t) < size(&best) {
                        best = t;
                        bestv = nv;
                        improved = true;
                        progressed = true;
                        skip = skip.saturating_sub(1);
                        break;
                    }
                }
                // (b) keep the group but make everything in it minimal
                let mut cand = best.clone();
                with_parent(&mut cand, path, |p, i| {
                    p[i] = TNode::G(Vec::new());
                });
                execs += 1;
                if let Some((t, nv)) = still_fails(scn, tier, &key, &cand) {
                    if size(&t) < size(&best) {
                        best = t;
                        bestv = nv;
                        improved = true;
                        progressed = true;
                        skip = skip.saturating_sub(1);
                        break;
                    }
                }
            }
            if !progressed {
                break;
            }
        }
        // pass 2: lower single values (0 first, then binary search); only a limited number per round
        let vpaths = value_paths(&best);
        for path in vpaths.iter().take(if round == 1 { 400 } else { 150 }) {
            if over(execs) {
                break;
            }
            let mut orig = 0u64;
            with_parent(&mut best.clone(), path, |p, i| {
                if let TNode::V(v) = p[i] {
                    orig = v;
                }
            });
            // the tree may have changed since the paths were collected
            let mut cur = None;
            {
                let mut probe = best.clone();
                with_parent(&mut probe, path, |p, i| {
                    if let TNode::V(v) = p[i] {
                        cur = Some(v);
                    }
                });
            }
            let Some(curv) = cur else { continue };
            if curv == 0 || curv >= (1 << 40) {
                continue;
            }
            let _ = orig;
            let mut lo = 0u64;
            let mut hi = curv;
            while lo < hi && !over(execs) {
                let mid = lo + (hi - lo) / 2;
                let mut cand = best.clone();
                with_parent(&mut cand, path, |p, i| {
                    p[i] = TNode::V(mid);
                });
                execs += 1;
                match still_fails(scn, tier, &key, &cand) {
                    Some((t, nv)) if size(&t) <= size(&best) => {
                        let same_shape = size(&t) == size(&best);
                        best = t;
                        bestv = nv;
                        improved = true;
                        hi = mid;
                        if !same_shape {
                            break;
                        }
                    }
                    _ => lo = mid + 1,
                }
            }
        }
    }
    let to_len = count_values(&best);
    SHRINK_EVAL_CAP.store(u64::MAX, std::sync::atomic::Ordering::SeqCst);
    (best, bestv, ShrinkStats { executions: execs, from_len, to_len })
}

// ------------------------------------------------------------------------------------------------
// known findings

#[derive(Clone, Debug)]
pub struct KnownFinding {
    pub property: String,
    pub id: String,
    pub oracle: String,
    pub class: String,
    pub trigger: Option<String>,
    pub what: String,
    pub scenario: String,
    pub tape: Vec<TNode>,
    pub tier: Tier,
    /// a literal input for scenarios that replay a fixed document instead of a tape (robust against generator changes)
    pub input: Option<String>,
}

pub fn load_known_findings(path: &str) -> Result<Vec<KnownFinding>, String> {
    let text = match std::fs::read_to_string(path) {
        Ok(t) => t,
        Err(_) => return Ok(Vec::new()),
    };
    let v: Value = serde_json::from_str(&text).map_err(|e| format!("{path}: {e}"))?;
    let mut out = Vec::new();
    if let Some(list) = v.get("known").and_then(Value::as_array) {
        for k in list {
            let s = |name: &str| k.get(name).and_then(Value::as_str).unwrap_or("").to_string();
            out.push(KnownFinding {
                property: s("property"),
                id: s("id"),
                oracle: s("oracle"),
                class: s("class"),
                trigger: k.get("trigger").and_then(Value::as_str).map(str::to_string),
                what: s("what"),
                scenario: s("scenario"),
                tier: if s("tier") == "thorough" { Tier::Thorough } else { Tier::Quick },
                input: k.get("input").and_then(Value::as_str).map(str::to_string),
                tape: k.get("tape").map(from_json).unwrap_or_default(),
            });
        }
    }
    Ok(out)
}

fn matches_known(kf: &KnownFinding, property: &str, v: &Violation) -> bool {
    kf.property == property
        && kf.oracle == v.oracle
        && kf.class == v.class
        && kf.trigger.as_ref().is_none_or(|t| v.triggers.contains(t))
}

// ------------------------------------------------------------------------------------------------
// the search driver

/// literal input for fixed-input scenarios (set only while a known finding is replayed)
pub static FIXED_INPUT: std::sync::RwLock<Option<String>> = std::sync::RwLock::new(None);

pub struct ScenarioPlan {
    pub scenario: Box<dyn Scenario>,
    pub quick_runs: u64,
    pub thorough_runs: u64,
}

pub struct CheckSpec {
    pub property: &'static str,
    pub level: &'static str,
    pub rule: &'static str,
    pub assumptions: Vec<&'static str>,
    pub real_components: Vec<&'static str>,
    pub stubbed_components: Vec<&'static str>,
    pub expected_probes: Vec<&'static str>,
    pub plans: Vec<ScenarioPlan>,
}

#[derive(Default)]
struct Agg {
    runs: u64,
    evals: u64,
    nontrivial_runs: u64,
    vacuous: u64,
    sigs: BTreeSet<u64>,
    faults: BTreeMap<String, u64>,
    probes: BTreeMap<String, u64>,
    hash_orders: BTreeSet<u64>,
    max_ticks_per_kib: u64,
    max_peak_bytes: usize,
    violations: Vec<(usize, u64, Vec<TNode>, Violation)>, // (scenario idx, run idx, tape, violation)
    violation_count: u64,
    suppressed: u64,
    digest_checksum: u64,
    audit: Vec<(usize, u64, u64)>, // (scenario idx, run idx, digest)
    harness_errors: Vec<String>,
}

impl Agg {
    fn add(&mut self, si: usize, ri: u64, r: RunResult, audit: bool, known: &[KnownFinding], property: &str) {
        self.runs += 1;
        // order-independent checksum over the event digests of all runs: equal for equal VERIF_SEED in any process / worker count
        self.digest_checksum = self.digest_checksum.wrapping_add(mix(r.digest, ri ^ ((si as u64) << 48)));
        self.evals += r.evals.max(1);
        if r.vacuous {
            self.vacuous += 1;
        }
        if r.nontrivial {
            self.nontrivial_runs += 1;
            for s in &r.sigs {
                self.sigs.insert(*s);
            }
        }
        for (k, v) in r.faults {
            *self.faults.entry(k).or_insert(0) += v;
        }
        for (k, v) in r.probes {
            *self.probes.entry(k).or_insert(0) += v;
        }
        self.hash_orders.insert(r.hash_order_class);
        self.max_ticks_per_kib = self.max_ticks_per_kib.max(r.max_ticks_per_kib);
        self.max_peak_bytes = self.max_peak_bytes.max(r.max_peak_bytes);
        if audit {
            self.audit.push((si, ri, r.digest));
        }
        if let Some(v) = r.violation {
            if known.iter().any(|k| matches_known(k, property, &v)) {
                self.suppressed += 1;
                return;
            }
            self.violation_count += 1;
            if v.oracle == "harness" {
                self.harness_errors.push(format!("{} :: {}", v.class, v.detail));
            }
            self.violations.push((si, ri, r.tape, v));
            // keep only the earliest few per worker; merged and cut again later
            if self.violations.len() > 64 {
                self.violations.sort_by_key(|x| (x.0, x.1));
                self.violations.truncate(32);
            }
        }
    }

    fn merge(&mut self, o: Agg) {
        self.runs += o.runs;
        self.evals += o.evals;
        self.nontrivial_runs += o.nontrivial_runs;
        self.vacuous += o.vacuous;
        self.sigs.extend(o.sigs);
        for (k, v) in o.faults {
            *self.faults.entry(k).or_insert(0) += v;
        }
        for (k, v) in o.probes {
            *self.probes.entry(k).or_insert(0) += v;
        }
        self.hash_orders.extend(o.hash_orders);
        self.max_ticks_per_kib = self.max_ticks_per_kib.max(o.max_ticks_per_kib);
        self.max_peak_bytes = self.max_peak_bytes.max(o.max_peak_bytes);
        self.violations.extend(o.violations);
        self.violation_count += o.violation_count;
        self.suppressed += o.suppressed;
        self.digest_checksum = self.digest_checksum.wrapping_add(o.digest_checksum);
        self.audit.extend(o.audit);
        self.harness_errors.extend(o.harness_errors);
    }
}

pub fn clip(s: &str, max: usize) -> String {
    if s.len() <= max || std::env::var("VERIF_FULL").is_ok() {
        return s.to_string();
    }
    let mut end = max;
    while !s.is_char_boundary(end) {
        end -= 1;
    }
    format!("{}... [{} bytes]", &s[..end], s.len())
}

pub fn run_seed(verif_seed: u64, property: &str, scenario: &str, run: u64) -> u64 {
    mix(mix(verif_seed, hash_str(property) ^ hash_str(scenario).rotate_left(17)), run)
}

fn env_u64(name: &str, default: u64) -> u64 {
    std::env::var(name).ok().and_then(|v| v.parse().ok()).unwrap_or(default)
}

pub fn verif_root() -> String {
    std::env::var("VERIF_ROOT").unwrap_or_else(|_| "/verif".to_string())
}

pub fn write_replay(property: &str, scn: &dyn Scenario, verif_seed: u64, run: u64, tier: Tier, tape: &[TNode], orig_len: usize, v: &Violation, rendered: &[String]) -> String {
    let dir = format!("{}/replays", verif_root());
    let _ = std::fs::create_dir_all(&dir);
    let path = format!("{dir}/{property}-{}-s{verif_seed}-r{run}.json", scn.name());
    let doc = json!({
        "property": property,
        "scenario": scn.name(),
        "verif_seed": verif_seed,
        "run": run,
        "tier": tier.name(),
        "violation": { "oracle": v.oracle, "class": v.class, "detail": v.detail, "triggers": v.triggers },
        "tape": to_json(tape),
        "tape_values": count_values(tape),
        "tape_len_original": orig_len,
        "rendered": rendered,
    });
    std::fs::write(&path, serde_json::to_string_pretty(&doc).unwrap()).expect("write replay file");
    path
}

/// replay file for a run that did not finish: it is identified by its seed, not by a recorded tape
pub fn write_seed_replay(property: &str, scn: &dyn Scenario, verif_seed: u64, run: u64, tier: Tier, v: &Violation) -> String {
    let dir = format!("{}/replays", verif_root());
    let _ = std::fs::create_dir_all(&dir);
    let path = format!("{dir}/{property}-{}-s{verif_seed}-r{run}-hang.json", scn.name());
    let doc = json!({
        "property": property,
        "scenario": scn.name(),
        "verif_seed": verif_seed,
        "run": run,
        "tier": tier.name(),
        "violation": { "oracle": v.oracle, "class": v.class, "detail": v.detail, "triggers": v.triggers },
        "replay_from_seed": run_seed(verif_seed, property, scn.name(), run),
        "rendered": ["the run did not finish; replay re-executes it from its seed under the same watchdog"],
    });
    std::fs::write(&path, serde_json::to_string_pretty(&doc).unwrap()).expect("write replay file");
    path
}

/// `a2lsim abort-replay <property> <scenario idx> <run> <tier> <status>`: called by the check script after the process
/// ended abnormally (stack overflow, allocation failure, abort) while executing the named run
pub fn write_abort_replay(all: &[CheckSpec], property: &str, si: usize, run: u64, tier: Tier, status: &str) -> i32 {
    let verif_seed = env_u64("VERIF_SEED", 1);
    let Some(spec) = all.iter().find(|c| c.property == property) else { return 2 };
    let Some(plan) = spec.plans.get(si) else { return 2 };
    let scn = plan.scenario.as_ref();
    let v = Violation { oracle: "termination".into(), class: "process-abort".into(), detail: format!("the process ended abnormally ({status}) while executing this run: stack overflow, allocation failure or abort inside the library"), triggers: BTreeSet::new() };
    let dir = format!("{}/replays", verif_root());
    let _ = std::fs::create_dir_all(&dir);
    let path = format!("{dir}/{property}-{}-s{verif_seed}-r{run}-abort.json", scn.name());
    let doc = json!({
        "property": property, "scenario": scn.name(), "verif_seed": verif_seed, "run": run, "tier": tier.name(),
        "violation": { "oracle": v.oracle, "class": v.class, "detail": v.detail, "triggers": v.triggers },
        "replay_from_seed": run_seed(verif_seed, property, scn.name(), run),
        "process_abort": true,
        "rendered": ["the process died in this run; replay re-executes it from its seed in a child process"],
    });
    if std::fs::write(&path, serde_json::to_string_pretty(&doc).unwrap()).is_err() {
        return 2;
    }
    println!("violation: scenario={} run={run} oracle={} class={}\n  {}", scn.name(), v.oracle, v.class, v.detail);
    println!("VIOLATION property={property} replay={path}");
    1
}

pub fn run_check(spec: &CheckSpec, tier: Tier) -> i32 {
    let started = Instant::now();
    let verif_seed = env_u64("VERIF_SEED", 1);
    let workers = if std::env::var("VERIF_TRACE_FILE").is_ok() { 1 } else { env_u64("VERIF_WORKERS", 16).max(1) as usize };
    let scale_pct = env_u64("VERIF_RUNS_PCT", 100);
    println!("a2lsim check property={} tier={} VERIF_SEED={} workers={}", spec.property, tier.name(), verif_seed, workers);

    if let Err(e) = hashseed::selftest() {
        eprintln!("HARNESS ERROR: hash seam self-test failed: {e}");
        return 2;
    }
    let known = match load_known_findings(&format!("{}/known_findings.json", verif_root())) {
        Ok(k) => k,
        Err(e) => {
            eprintln!("HARNESS ERROR: {e}");
            return 2;
        }
    };

    // work list: (scenario idx, run idx), cut into blocks
    let mut work: Vec<(usize, u64, u64)> = Vec::new(); // (scenario, first run, count)
    let mut total_runs = 0u64;
    for (si, plan) in spec.plans.iter().enumerate() {
        let n = match tier {
            Tier::Quick => plan.quick_runs,
            Tier::Thorough => plan.thorough_runs,
        };
        if n == 0 {
            continue;
        }
        let n = (n * scale_pct / 100).max(1);
        total_runs += n;
        let block = (n / (workers as u64 * 8)).clamp(1, 512);
        let mut first = 0;
        while first < n {
            let cnt = block.min(n - first);
            work.push((si, first, cnt));
            first += cnt;
        }
    }
    let next = AtomicUsize::new(0);
    let total = Mutex::new(Agg::default());
    let audit_every = if total_runs > 200_000 { 997 } else { 50 };

    // wall-clock watchdog: a backstop for loops that pass no fuel tick (e.g. in the writer). It never decides
    // anything about a run that finishes; a run that is still executing after WATCHDOG_SECS is reported and ends the check.
    // VERIF_TRACE_FILE (used by the check script after an abnormal process end): the id of the run that is about
    // to start is written to this file, so that the run that kills the process can be named
    let trace_file: Option<Mutex<std::fs::File>> = std::env::var("VERIF_TRACE_FILE").ok().and_then(|p| std::fs::File::create(p).ok()).map(Mutex::new);
    let trace_file = &trace_file;
    let slots: Vec<(AtomicU64, AtomicU64)> = (0..workers).map(|_| (AtomicU64::new(0), AtomicU64::new(u64::MAX))).collect();
    let finished = std::sync::atomic::AtomicBool::new(false);
    let watchdog_secs = env_u64("VERIF_WATCHDOG_SECS", WATCHDOG_SECS);
    std::thread::scope(|s| {
        s.spawn(|| {
            while !finished.load(Ordering::Relaxed) {
                std::thread::sleep(std::time::Duration::from_millis(500));
                let now = started.elapsed().as_secs();
                for (start, id) in &slots {
                    let idv = id.load(Ordering::Relaxed);
                    let st = start.load(Ordering::Relaxed);
                    if idv != u64::MAX && now.saturating_sub(st) > watchdog_secs {
                        let si = (idv >> 48) as usize;
                        let ri = idv & 0xffff_ffff_ffff;
                        let scn = spec.plans[si].scenario.as_ref();
                        let v = Violation { oracle: "termination".into(), class: "hang:wall-clock-watchdog".into(), detail: format!("the run was still executing after {watchdog_secs} s (a loop without fuel tick, or an extreme slow-down)"), triggers: BTreeSet::new() };
                        let path = write_seed_replay(spec.property, scn, verif_seed, ri, tier, &v);
                        println!("violation: scenario={} run={ri} oracle={} class={}\n  {}", scn.name(), v.oracle, v.class, v.detail);
                        println!("VIOLATION property={} replay={}", spec.property, path);
                        std::process::exit(1);
                    }
                }
            }
        });
        let mut handles = Vec::new();
        for wi in 0..workers {
            let slots = &slots;
            let next = &next;
            let work = &work;
            let known = &known;
            let total = &total;
            handles.push(s.spawn(move || {
                let mut agg = Agg::default();
                loop {
                    let w = next.fetch_add(1, Ordering::Relaxed);
                    if w >= work.len() {
                        break;
                    }
                    let (si, first, cnt) = work[w];
                    let scn = spec.plans[si].scenario.as_ref();
                    for ri in first..first + cnt {
                        let seed = run_seed(verif_seed, spec.property, scn.name(), ri);
                        if let Some(tf) = trace_file.as_ref() {
                            use std::io::{Seek, SeekFrom, Write};
                            let mut f = tf.lock().unwrap();
                            let _ = f.seek(SeekFrom::Start(0));
                            let _ = f.write_all(format!("{si:>6} {ri:>20}\n").as_bytes());
                        }
                        slots[wi].0.store(started.elapsed().as_secs(), Ordering::Relaxed);
                        slots[wi].1.store(((si as u64) << 48) | ri, Ordering::Relaxed);
                        let r = exec_run(scn, Tape::from_seed(seed), tier, false);
                        slots[wi].1.store(u64::MAX, Ordering::Relaxed);
                        let audit = mix(seed, 99) % audit_every == 0;
                        agg.add(si, ri, r, audit, known, spec.property);
                    }
                }
                total.lock().unwrap().merge(agg);
            }));
        }
        for h in handles {
            let _ = h.join();
        }
        finished.store(true, Ordering::Relaxed);
    });
    let mut agg = total.into_inner().unwrap();
    let search_wall = started.elapsed().as_secs_f64();

    if !agg.harness_errors.is_empty() {
        for e in agg.harness_errors.iter().take(5) {
            eprintln!("HARNESS ERROR: {e}");
        }
        return 2;
    }

    // determinism audit: re-execute a fixed sample, compare event digests
    agg.audit.sort();
    let mut audit_mismatch = 0u64;
    let audit_items: Vec<(usize, u64, u64)> = agg.audit.clone();
    let mism = Mutex::new(Vec::new());
    let anext = AtomicUsize::new(0);
    std::thread::scope(|s| {
        for _ in 0..workers {
            s.spawn(|| loop {
                let i = anext.fetch_add(1, Ordering::Relaxed);
                if i >= audit_items.len() {
                    break;
                }
                let (si, ri, digest) = audit_items[audit_items.len() - 1 - i];
                let scn = spec.plans[si].scenario.as_ref();
                let seed = run_seed(verif_seed, spec.property, scn.name(), ri);
                let r = exec_run(scn, Tape::from_seed(seed), tier, false);
                if r.digest != digest {
                    mism.lock().unwrap().push((si, ri));
                }
            });
        }
    });
    for (si, ri) in mism.into_inner().unwrap() {
        audit_mismatch += 1;
        eprintln!("HARNESS ERROR: determinism audit mismatch scenario={} run={}", spec.plans[si].scenario.name(), ri);
    }
    if audit_mismatch > 0 {
        return 2;
    }

    // known findings: replay each listed tape
    let mut known_reproduced = Vec::new();
    for kf in known.iter().filter(|k| k.property == spec.property) {
        let mut reproduced = false;
        if let Some(plan) = spec.plans.iter().find(|p| p.scenario.name() == kf.scenario) {
            *FIXED_INPUT.write().unwrap() = kf.input.clone();
            let r = exec_run(plan.scenario.as_ref(), Tape::from_replay(kf.tape.clone()), kf.tier, false);
            *FIXED_INPUT.write().unwrap() = None;
            if let Some(v) = &r.violation {
                if matches_known(kf, spec.property, v) {
                    reproduced = true;
                }
            }
        }
        if reproduced {
            println!("KNOWN-FINDING: property={} {} [{}]", spec.property, kf.what, kf.id);
            known_reproduced.push(kf.id.clone());
        } else {
            println!("note: known finding {} no longer reproduces from its recorded tape", kf.id);
        }
    }

    // violations: earliest first; suppress known ones; shrink and report up to three
    agg.violations.sort_by_key(|x| (x.0, x.1));
    let mut reported = 0u32;
    let new_violations = agg.violation_count;
    let suppressed = agg.suppressed;
    let mut seen_keys: BTreeSet<String> = BTreeSet::new();
    let mut replay_paths = Vec::new();
    for (si, ri, tape, v) in &agg.violations {
        let key = format!("{}|{}", spec.plans[*si].scenario.name(), v.key());
        if reported >= 3 || seen_keys.contains(&key) {
            continue;
        }
        seen_keys.insert(key);
        let scn = spec.plans[*si].scenario.as_ref();
        let (stape, sv, st) = shrink(scn, tier, tape.clone(), v.clone(), if reported == 0 { 6000 } else { 1500 }, if reported == 0 { 90.0 } else { 20.0 });
        // a shrunk tape that now matches a known finding is that finding, not a new one
        if known.iter().any(|k| matches_known(k, spec.property, &sv)) && !known.iter().any(|k| matches_known(k, spec.property, v)) {
            // keep the unshrunk violation instead
            let rr = exec_run(scn, Tape::from_replay(tape.clone()), tier, true);
            let path = write_replay(spec.property, scn, verif_seed, *ri, tier, tape, count_values(tape), v, &rr.log);
            println!("VIOLATION property={} replay={}", spec.property, path);
            replay_paths.push(path);
            reported += 1;
            continue;
        }
        let rr = exec_run(scn, Tape::from_replay(stape.clone()), tier, true);
        let path = write_replay(spec.property, scn, verif_seed, *ri, tier, &stape, st.from_len, &sv, &rr.log);
        println!(
            "violation: scenario={} run={} oracle={} class={} (tape {} -> {} values, {} shrink executions)\n  {}",
            scn.name(), ri, sv.oracle, sv.class, st.from_len, st.to_len, st.executions, sv.detail
        );
        println!("VIOLATION property={} replay={}", spec.property, path);
        replay_paths.push(path);
        reported += 1;
    }
    if new_violations > u64::from(reported) {
        println!("({} further violating runs not minimised)", new_violations - u64::from(reported));
    }

    // samples: re-render the first non-trivial runs of each scenario
    let mut samples = Vec::new();
    for (si, plan) in spec.plans.iter().enumerate() {
        if plan.quick_runs == 0 && plan.thorough_runs == 0 {
            continue;
        }
        let want = if si == 0 { 2 } else { 1 };
        let mut got = 0;
        let mut fallback = None;
        for ri in 0..40 {
            let seed = run_seed(verif_seed, spec.property, plan.scenario.name(), ri);
            let r = exec_run(plan.scenario.as_ref(), Tape::from_seed(seed), tier, true);
            let nontrivial = r.nontrivial;
            let mut lines = r.log;
            if lines.len() > 40 {
                let n = lines.len();
                lines.truncate(40);
                lines.push(format!("... ({} more lines)", n - 40));
            }
            let lines: Vec<String> = lines.into_iter().map(|l| clip(&l, 600)).collect();
            let sample = json!({"scenario": plan.scenario.name(), "run": ri, "seed": seed, "nontrivial": nontrivial, "events": lines});
            if nontrivial {
                samples.push(sample);
                got += 1;
                if got >= want {
                    break;
                }
            } else if fallback.is_none() {
                fallback = Some(sample);
            }
        }
        if got == 0 {
            if let Some(f) = fallback {
                samples.push(f);
            }
        }
    }

    for p in &spec.expected_probes {
        if agg.probes.get(*p).copied().unwrap_or(0) == 0 {
            println!("warning: probe '{p}' was never hit in this run");
        }
    }

    let wall = started.elapsed().as_secs_f64();
    let evidence = json!({
        "property_id": spec.property,
        "tier": tier.name(),
        "seed": verif_seed,
        "level": spec.level,
        "coverage": {
            "evaluations": agg.evals,
            "distinct_nontrivial": agg.sigs.len(),
            "rule": spec.rule,
            "samples": samples,
            "simulated_runs": agg.runs,
            "nontrivial_runs": agg.nontrivial_runs,
            "vacuous_runs": agg.vacuous,
            "runs_per_hour": if search_wall > 0.0 { (agg.runs as f64 / search_wall * 3600.0) as u64 } else { 0 },
            "seeds": format!("run seed = mix(VERIF_SEED={}, property, scenario, run index 0..n)", verif_seed),
            "scenarios": spec.plans.iter().map(|p| p.scenario.name()).collect::<Vec<_>>(),
            "fault_fired": agg.faults,
            "probes": agg.probes,
            "hash_orders_distinct": agg.hash_orders.len(),
            "max_ticks_per_kib": agg.max_ticks_per_kib,
            "max_peak_bytes_held_by_one_guarded_call": agg.max_peak_bytes,
            "simulated_time": "n/a: the system under test has no clock, timer or timeout",
            "real_components": spec.real_components,
            "stubbed_components": spec.stubbed_components,
            "known_findings_reproduced": known_reproduced,
            "known_violations_suppressed": suppressed,
            "determinism_audit": {"runs": agg.audit.len(), "mismatches": audit_mismatch},
            "run_digest_checksum": format!("{:016x}", agg.digest_checksum),
            "exhaustive": false,
        },
        "assumptions": spec.assumptions,
        "wall_s": wall,
        "violations": new_violations,
    });
    let evdir = format!("{}/evidence", verif_root());
    let _ = std::fs::create_dir_all(&evdir);
    let evpath = format!("{evdir}/{}.json", spec.property);
    if let Err(e) = std::fs::write(&evpath, serde_json::to_string_pretty(&evidence).unwrap()) {
        eprintln!("HARNESS ERROR: cannot write {evpath}: {e}");
        return 2;
    }
    println!(
        "runs={} evaluations={} distinct_nontrivial={} vacuous={} violations={} known_suppressed={} audit={}/{} checksum={:016x} wall={:.1}s",
        agg.runs, agg.evals, agg.sigs.len(), agg.vacuous, new_violations, suppressed, agg.audit.len(), audit_mismatch, agg.digest_checksum, wall
    );
    if new_violations > 0 {
        1
    } else {
        0
    }
}

// ------------------------------------------------------------------------------------------------
// replay

pub fn replay_file(path: &str, all: &[CheckSpec]) -> i32 {
    let text = match std::fs::read_to_string(path) {
        Ok(t) => t,
        Err(e) => {
            eprintln!("HARNESS ERROR: cannot read {path}: {e}");
            return 2;
        }
    };
    let v: Value = match serde_json::from_str(&text) {
        Ok(v) => v,
        Err(e) => {
            eprintln!("HARNESS ERROR: {path}: {e}");
            return 2;
        }
    };
    let property = v["property"].as_str().unwrap_or("");
    let scenario = v["scenario"].as_str().unwrap_or("");
    let tier = if v["tier"].as_str() == Some("thorough") { Tier::Thorough } else { Tier::Quick };
    let tape: Vec<TNode> = from_json(&v["tape"]);
    let want = format!("{}|{}", v["violation"]["oracle"].as_str().unwrap_or(""), v["violation"]["class"].as_str().unwrap_or(""));
    let Some(plan) = all.iter().filter(|c| c.property == property).flat_map(|c| c.plans.iter()).find(|p| p.scenario.name() == scenario) else {
        eprintln!("HARNESS ERROR: unknown property/scenario {property}/{scenario}");
        return 2;
    };
    if v.get("process_abort").and_then(Value::as_bool) == Some(true) {
        // re-execute the run in a child process and look at how it ends
        let run = v["run"].as_u64().unwrap_or(0);
        let exe = std::env::current_exe().expect("current exe");
        let status = std::process::Command::new(exe)
            .args(["one", property, scenario, tier.name(), &run.to_string()])
            .env("VERIF_SEED", v["verif_seed"].as_u64().unwrap_or(1).to_string())
            .stdout(std::process::Stdio::null())
            .stderr(std::process::Stdio::null())
            .status();
        return match status {
            Ok(st) if matches!(st.code(), Some(0 | 1 | 2)) => {
                println!("not reproduced: the run ends normally now (exit {:?})", st.code());
                i32::from(st.code() == Some(1))
            }
            Ok(st) => {
                println!("reproduced: the child process ended abnormally ({st})");
                println!("VIOLATION property={property} replay={path}");
                1
            }
            Err(e) => {
                eprintln!("HARNESS ERROR: cannot start child process: {e}");
                2
            }
        };
    }
    if let Some(seed) = v.get("replay_from_seed").and_then(Value::as_u64) {
        // a run that hung: execute it from its seed in a helper thread and wait for the watchdog time
        let limit = env_u64("VERIF_WATCHDOG_SECS", WATCHDOG_SECS);
        let (tx, rx) = std::sync::mpsc::channel();
        let scn_name = scenario.to_string();
        let prop = property.to_string();
        std::thread::spawn(move || {
            let all = crate::all_checks();
            if let Some(plan) = all.iter().filter(|c| c.property == prop).flat_map(|c| c.plans.iter()).find(|p| p.scenario.name() == scn_name) {
                let r = exec_run(plan.scenario.as_ref(), Tape::from_seed(seed), tier, false);
                let _ = tx.send(r.violation.map(|v| v.key()));
            }
        });
        return match rx.recv_timeout(std::time::Duration::from_secs(limit)) {
            Err(_) => {
                println!("reproduced: the run is still executing after {limit} s");
                println!("VIOLATION property={property} replay={path}");
                1
            }
            Ok(Some(k)) => {
                println!("different violation: {k} (recorded: {want})");
                println!("VIOLATION property={property} replay={path}");
                1
            }
            Ok(None) => {
                println!("not reproduced: the run finishes without violation now");
                0
            }
        };
    }
    let r = exec_run(plan.scenario.as_ref(), Tape::from_replay(tape), tier, true);
    for l in &r.log {
        println!("{l}");
    }
    match r.violation {
        Some(viol) if viol.key() == want => {
            println!("reproduced: oracle={} class={}", viol.oracle, viol.class);
            println!("VIOLATION property={property} replay={path}");
            1
        }
        Some(viol) => {
            println!("different violation: oracle={} class={} (recorded: {want})", viol.oracle, viol.class);
            println!("VIOLATION property={property} replay={path}");
            1
        }
        None => {
            println!("not reproduced: the recorded tape no longer violates {property}");
            0
        }
    }
}


/// `a2lsim one <property> <scenario> <tier> <run>`: execute one run of a search by its index, shrink and write a replay file
pub fn run_one(all: &[CheckSpec], property: &str, scenario: &str, tier: Tier, run: u64) -> i32 {
    let verif_seed = env_u64("VERIF_SEED", 1);
    let Some(plan) = all.iter().filter(|c| c.property == property).flat_map(|c| c.plans.iter()).find(|p| p.scenario.name() == scenario) else {
        eprintln!("HARNESS ERROR: unknown property/scenario {property}/{scenario}");
        return 2;
    };
    let scn = plan.scenario.as_ref();
    let seed = run_seed(verif_seed, property, scn.name(), run);
    let r = exec_run(scn, Tape::from_seed(seed), tier, false);
    match r.violation {
        None => {
            println!("run {run}: no violation (evals {}, nontrivial {}, vacuous {})", r.evals, r.nontrivial, r.vacuous);
            0
        }
        Some(v) => {
            let (stape, sv, st) = shrink(scn, tier, r.tape.clone(), v, 3000, 60.0);
            let rr = exec_run(scn, Tape::from_replay(stape.clone()), tier, true);
            let path = write_replay(property, scn, verif_seed, run, tier, &stape, st.from_len, &sv, &rr.log);
            println!("violation: oracle={} class={} (tape {} -> {})\n  {}", sv.oracle, sv.class, st.from_len, st.to_len, sv.detail);
            println!("VIOLATION property={property} replay={path}");
            1
        }
    }
}
