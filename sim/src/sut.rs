//! Guarded calls into the system under test: every call runs under catch_unwind with the fuel counter armed.

use crate::runner::{guarded, Cx, Violation};
use a2lfile::{A2lError, A2lFile, Module};

pub const FUEL_PER_BYTE: u64 = 512;

/// memory a load may hold at its peak: a fixed allowance plus a generous multiple of the input size (tokens, model,
/// layout records, decoded copies of the text together stay far below this; only amplification exceeds it)
pub const MEM_BASE: usize = 192 << 20;
pub const MEM_PER_BYTE: usize = 4096;

fn with_fuel<T, F: FnOnce() -> T>(cx: &mut Cx, oracle: &str, what: &str, bytes: usize, f: F) -> Result<T, Violation> {
    if cx.evals > cx.eval_cap {
        return Err(cx.fail("harness", "cut-short-while-minimising", String::new()));
    }
    let fuel = FUEL_PER_BYTE * (bytes as u64 + 64);
    a2lfile::verif_hooks::set_fuel(Some(fuel));
    crate::memseam::reset();
    let r = guarded(cx, oracle, what, f);
    let peak = crate::memseam::peak();
    let ticks = a2lfile::verif_hooks::ticks();
    a2lfile::verif_hooks::set_fuel(None);
    cx.evals += 1;
    if peak > cx.max_peak_bytes {
        cx.max_peak_bytes = peak;
    }
    if r.is_ok() && peak > MEM_BASE + MEM_PER_BYTE * bytes {
        return Err(cx.fail(oracle, "memory-amplification", format!("{what}: {bytes} bytes of input made the call hold {} MiB at its peak (allowance: {} MiB + {MEM_PER_BYTE} bytes per input byte)", peak >> 20, MEM_BASE >> 20)));
    }
    if r.is_ok() {
        let per_kib = ticks * 1024 / (bytes as u64 + 64);
        if per_kib > cx.max_ticks_per_kib {
            cx.max_ticks_per_kib = per_kib;
        }
    }
    r
}

pub type LoadResult = Result<(A2lFile, Vec<A2lError>), A2lError>;

/// the diagnostics and the error value must be renderable (Display and Debug) without panic: that is how a caller
/// gets to see them
fn render<T>(cx: &mut Cx, oracle: &str, r: &Result<(T, Vec<A2lError>), A2lError>) -> Result<(), Violation> {
    guarded(cx, oracle, "Display of the diagnostics", || {
        let mut n = 0usize;
        match r {
            Ok((_, msgs)) => {
                for m in msgs.iter().take(64) {
                    n += m.to_string().len();
                }
            }
            Err(e) => n += e.to_string().len() + format!("{e:?}").len(),
        }
        std::hint::black_box(n);
    })
}

fn render_err<T>(cx: &mut Cx, oracle: &str, r: &Result<T, A2lError>) -> Result<(), Violation> {
    guarded(cx, oracle, "Display of the error value", || {
        if let Err(e) = r {
            std::hint::black_box(e.to_string().len());
        }
    })
}

pub fn load_str(cx: &mut Cx, oracle: &str, text: &str, spec: Option<String>, strict: bool) -> Result<LoadResult, Violation> {
    let bytes = text.len() + spec.as_ref().map_or(0, String::len);
    let r = with_fuel(cx, oracle, "load_from_string", bytes, || a2lfile::load_from_string(text, spec, strict))?;
    render(cx, oracle, &r)?;
    Ok(r)
}

pub fn load_fragment(cx: &mut Cx, oracle: &str, text: &str, spec: Option<String>) -> Result<Result<Module, A2lError>, Violation> {
    let bytes = text.len() + spec.as_ref().map_or(0, String::len);
    let r = with_fuel(cx, oracle, "load_fragment", bytes, || a2lfile::load_fragment(text, spec))?;
    render_err(cx, oracle, &r)?;
    Ok(r)
}

/// `total_bytes`: upper bound of the bytes reachable from this path (all files in the VFS)
pub fn load_path(cx: &mut Cx, oracle: &str, path: &str, spec: Option<String>, strict: bool, total_bytes: usize) -> Result<LoadResult, Violation> {
    let bytes = total_bytes + spec.as_ref().map_or(0, String::len);
    let r = with_fuel(cx, oracle, "load", bytes, || a2lfile::load(path, spec, strict))?;
    render(cx, oracle, &r)?;
    Ok(r)
}

pub fn load_fragment_path(cx: &mut Cx, oracle: &str, path: &str, spec: Option<String>, total_bytes: usize) -> Result<Result<Module, A2lError>, Violation> {
    let bytes = total_bytes + spec.as_ref().map_or(0, String::len);
    let r = with_fuel(cx, oracle, "load_fragment_file", bytes, || a2lfile::load_fragment_file(path, spec))?;
    render_err(cx, oracle, &r)?;
    Ok(r)
}

pub fn write_str(cx: &mut Cx, oracle: &str, file: &A2lFile) -> Result<String, Violation> {
    let r = guarded(cx, oracle, "write_to_string", || file.write_to_string());
    cx.evals += 1;
    r
}

pub fn write_path(cx: &mut Cx, oracle: &str, file: &A2lFile, path: &str, banner: Option<&str>) -> Result<Result<(), A2lError>, Violation> {
    let r = guarded(cx, oracle, "A2lFile::write", || file.write(path, banner));
    cx.evals += 1;
    r
}

/// short classification of a load error (variant names only: messages contain paths and lines)
pub fn err_class(e: &A2lError) -> String {
    match e {
        A2lError::FileOpenError { .. } => "FileOpenError".into(),
        A2lError::FileReadError { .. } => "FileReadError".into(),
        A2lError::EmptyFileError { .. } => "EmptyFileError".into(),
        A2lError::InvalidBuiltinA2mlSpec { .. } => "InvalidBuiltinA2mlSpec".into(),
        A2lError::TokenizerError { tokenizer_error } => {
            let d = format!("{tokenizer_error:?}");
            format!("TokenizerError::{}", d.split([' ', '{', '(']).next().unwrap_or(""))
        }
        A2lError::ParserError { parser_error } => {
            let d = format!("{parser_error:?}");
            format!("ParserError::{}", d.split([' ', '{', '(']).next().unwrap_or(""))
        }
        A2lError::FileWriteError { .. } => "FileWriteError".into(),
        other => {
            let d = format!("{other:?}");
            d.split([' ', '{', '(']).next().unwrap_or("").to_string()
        }
    }
}

pub fn diag_classes(msgs: &[A2lError]) -> Vec<String> {
    msgs.iter().map(err_class).collect()
}

/// first line where two texts differ, for violation details
pub fn first_diff(a: &str, b: &str) -> String {
    let mut la = a.split('\n');
    let mut lb = b.split('\n');
    let mut n = 1;
    loop {
        match (la.next(), lb.next()) {
            (Some(x), Some(y)) => {
                if x != y {
                    return format!("line {n}: {:?} vs {:?}", crate::runner::clip(x, 120), crate::runner::clip(y, 120));
                }
            }
            (Some(x), None) => return format!("line {n}: {:?} vs <end of text>", crate::runner::clip(x, 120)),
            (None, Some(y)) => return format!("line {n}: <end of text> vs {:?}", crate::runner::clip(y, 120)),
            (None, None) => return "texts are equal".to_string(),
        }
        n += 1;
    }
}
