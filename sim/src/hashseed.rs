//! Hash-iteration order as a schedule.
//!
//! std's `RandomState` takes its per-thread SipHash keys from the OS through the (weakly resolved)
//! libc symbol `getrandom`. This binary defines that symbol, so the keys of every thread come
//! from the simulator: a run executes in a fresh thread whose 16 key bytes are taken from the tape.
//! Nothing else in this process needs OS randomness.

use std::cell::Cell;
use std::collections::HashMap;

thread_local! {
    static KEY: Cell<[u8; 16]> = const { Cell::new([0x5a; 16]) };
    static CALLS: Cell<u64> = const { Cell::new(0) };
}

/// # Safety
/// called by std / libc with a valid buffer
#[no_mangle]
pub unsafe extern "C" fn getrandom(buf: *mut u8, buflen: usize, _flags: u32) -> isize {
    let key = KEY.with(Cell::get);
    let n = CALLS.with(|c| {
        let v = c.get();
        c.set(v + 1);
        v
    });
    for i in 0..buflen {
        // later calls in the same thread (there are none today) get a different but still deterministic stream
        let b = key[i % 16] ^ ((n as u8).wrapping_mul(31)) ^ (((i / 16) as u8).wrapping_mul(17));
        unsafe { *buf.add(i) = b };
    }
    buflen as isize
}

/// must be called in a fresh thread before the first HashMap is created there
pub fn set_thread_key(k0: u64, k1: u64) {
    let mut key = [0u8; 16];
    key[..8].copy_from_slice(&k0.to_le_bytes());
    key[8..].copy_from_slice(&k1.to_le_bytes());
    KEY.with(|k| k.set(key));
}

pub fn getrandom_calls() -> u64 {
    CALLS.with(Cell::get)
}

/// the iteration order of an 8 key map in a fresh thread with the given keys
pub fn order_probe(k0: u64, k1: u64) -> (Vec<String>, u64) {
    std::thread::spawn(move || {
        set_thread_key(k0, k1);
        let mut m: HashMap<String, u32> = HashMap::new();
        for (i, k) in ["alpha", "beta", "gamma", "delta", "eps", "zeta", "eta", "theta"].iter().enumerate() {
            m.insert((*k).to_string(), i as u32);
        }
        (m.keys().cloned().collect::<Vec<_>>(), getrandom_calls())
    })
    .join()
    .unwrap()
}

/// order class of the current thread's *next* HashMap (consumes one RandomState)
pub fn order_class_here() -> u64 {
    let mut m: HashMap<u8, u8> = HashMap::new();
    for i in 0..6u8 {
        m.insert(i, i);
    }
    let mut h = 0u64;
    for k in m.keys() {
        h = h * 7 + u64::from(*k);
    }
    h
}

/// start-up self test: same bytes => same order, different bytes => some different order.
pub fn selftest() -> Result<(), String> {
    let (a1, calls) = order_probe(1, 2);
    let (a2, _) = order_probe(1, 2);
    if calls == 0 {
        return Err("the getrandom interposer was not called by std: hash order is not under control".into());
    }
    if a1 != a2 {
        return Err(format!("same key bytes gave different iteration orders: {a1:?} vs {a2:?}"));
    }
    let mut differs = false;
    for i in 0..32u64 {
        let (b, _) = order_probe(1000 + i, 77 * i);
        if b != a1 {
            differs = true;
            break;
        }
    }
    if !differs {
        return Err("32 different key values all gave the same iteration order".into());
    }
    Ok(())
}
