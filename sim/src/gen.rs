//! Workload generator: A2L documents from the frozen grammar table, with a lexical/layout layer.
//! Every choice comes from the run's tape, so documents shrink and replay with everything else.

use crate::tape::Tape;
use serde_json::Value;
use std::collections::BTreeMap;
use std::sync::OnceLock;

#[derive(Debug, Clone, PartialEq, Eq)]
pub enum Mult {
    Opt,
    Many,
    Req,
    ReqMany,
}

#[derive(Debug, Clone)]
pub struct Field {
    pub ty: String,
    pub name: String,
}

#[derive(Debug, Clone)]
pub enum Param {
    Single(Field),
    List(Vec<Field>),
}

#[derive(Debug, Clone)]
pub struct Sub {
    pub tags: Vec<String>,
    pub mult: Mult,
    pub min: Option<u32>,
    pub max: Option<u32>,
}

#[derive(Debug, Clone)]
pub struct ElemDef {
    pub block: bool,
    pub params: Vec<Param>,
    pub subs: Vec<Sub>,
}

#[derive(Debug, Clone)]
pub struct EnumItem {
    pub name: String,
    pub min: Option<u32>,
    pub max: Option<u32>,
}

pub struct Grammar {
    pub elements: BTreeMap<String, ElemDef>,
    pub enums: BTreeMap<String, Vec<EnumItem>>,
}

fn ver(v: &Value) -> Option<u32> {
    // "1.60" -> 160
    v.as_str().map(|s| {
        let mut it = s.split('.');
        let a: u32 = it.next().unwrap().parse().unwrap();
        let b: u32 = it.next().unwrap().parse().unwrap();
        a * 100 + b
    })
}

pub fn grammar() -> &'static Grammar {
    static G: OnceLock<Grammar> = OnceLock::new();
    G.get_or_init(|| {
        let v: Value = serde_json::from_str(include_str!("../grammar/grammar.json")).expect("grammar.json");
        let mut elements = BTreeMap::new();
        for (tag, e) in v["elements"].as_object().unwrap() {
            let field = |f: &Value| Field { ty: f["type"].as_str().unwrap().to_string(), name: f["name"].as_str().unwrap().to_string() };
            let params = e["params"]
                .as_array()
                .unwrap()
                .iter()
                .map(|p| if let Some(l) = p.get("list") { Param::List(l.as_array().unwrap().iter().map(field).collect()) } else { Param::Single(field(p)) })
                .collect();
            let subs = e["subs"]
                .as_array()
                .unwrap()
                .iter()
                .map(|s| Sub {
                    tags: s["tags"].as_array().unwrap().iter().map(|t| t.as_str().unwrap().to_string()).collect(),
                    mult: match s["mult"].as_str().unwrap() {
                        "opt" => Mult::Opt,
                        "many" => Mult::Many,
                        "req" => Mult::Req,
                        _ => Mult::ReqMany,
                    },
                    min: ver(&s["min"]),
                    max: ver(&s["max"]),
                })
                .collect();
            elements.insert(tag.clone(), ElemDef { block: e["form"].as_str() == Some("block"), params, subs });
        }
        let mut enums = BTreeMap::new();
        for (name, items) in v["enums"].as_object().unwrap() {
            enums.insert(
                name.clone(),
                items.as_array().unwrap().iter().map(|i| EnumItem { name: i["name"].as_str().unwrap().to_string(), min: ver(&i["min"]), max: ver(&i["max"]) }).collect(),
            );
        }
        Grammar { elements, enums }
    })
}

// ------------------------------------------------------------------------------------------------
// document tree

#[derive(Debug, Clone)]
pub enum Item {
    /// one lexical token (identifier, number, string with quotes, enum item)
    Tok(String),
    /// raw text that must be emitted verbatim (the body of an A2ML block)
    Raw(String),
    Node(Node),
    /// an /include directive standing for the items of another file
    Inc(Box<IncRef>),
    /// A2ML text that pulls a part of itself through an A2ML-level /include
    RawInc(Box<RawInc>),
}

#[derive(Debug, Clone)]
pub struct IncRef {
    /// the name as written in the directive (without quotes)
    pub name: String,
    pub quoted: bool,
    /// absolute path of the target in the simulated file system
    pub path: String,
    /// content of the included file: nodes and nested includes
    pub items: Vec<Item>,
    /// the directive stands inside an IF_DATA block
    pub in_ifdata: bool,
}

#[derive(Debug, Clone)]
pub struct RawInc {
    pub before: String,
    pub name: String,
    pub quoted: bool,
    pub path: String,
    pub content: String,
    pub after: String,
}

#[derive(Debug, Clone)]
pub struct Node {
    pub tag: String,
    pub block: bool,
    pub body: Vec<Item>,
    pub name: Option<String>,
}

impl Node {
    pub fn children(&self) -> impl Iterator<Item = &Node> {
        self.body.iter().filter_map(|i| if let Item::Node(n) = i { Some(n) } else { None })
    }

    pub fn count_nodes(&self) -> usize {
        1 + self.children().map(Node::count_nodes).sum::<usize>()
    }

    pub fn find_mut<'a>(&'a mut self, tag: &str) -> Option<&'a mut Node> {
        if self.tag == tag {
            return Some(self);
        }
        for it in &mut self.body {
            if let Item::Node(n) = it {
                if let Some(f) = n.find_mut(tag) {
                    return Some(f);
                }
            }
        }
        None
    }

    pub fn find<'a>(&'a self, tag: &str) -> Option<&'a Node> {
        if self.tag == tag {
            return Some(self);
        }
        self.children().find_map(|c| c.find(tag))
    }

    pub fn collect_tags(&self, out: &mut std::collections::BTreeSet<String>) {
        out.insert(self.tag.clone());
        for c in self.children() {
            c.collect_tags(out);
        }
    }
}

#[derive(Debug, Clone, Default)]
pub struct Features {
    pub comments: bool,
    pub multiline_comments: bool,
    pub non_ascii: bool,
    pub non_bmp: bool,
    pub hex_or_exp: bool,
    pub float_overflow: bool,
    pub if_data: bool,
    pub a2ml: bool,
    pub crlf: bool,
    pub raw_newline_in_string: bool,
    pub escapes: bool,
    pub multi_a2ml: bool,
    pub positions_out_of_order: bool,
    pub unusable_a2ml: bool,
}

#[derive(Debug, Clone)]
pub struct GenOpts {
    /// approximate number of elements
    pub budget: i64,
    pub allow_a2ml: bool,
    pub allow_ifdata: bool,
    pub unicode: bool,
    pub wild_numbers: bool,
    pub float_overflow: bool,
    pub escapes: bool,
    pub raw_newline_strings: bool,
    /// probability (per 16) that an optional sub-element is generated at depth < 2
    pub density: u64,
    /// position-restricted siblings (RECORD_LAYOUT) are not emitted in ascending position order
    pub shuffle_positions: bool,
    /// uninterpreted IF_DATA may contain a block named A2ML (its content reaches the parser as one raw text token)
    pub ifdata_a2ml_block: bool,
    /// the text of the A2ML block is not a usable definition (a declaration without IF_DATA block, an unknown
    /// keyword): non-strict loading accepts the file with a diagnostic and keeps the text
    pub unusable_a2ml: bool,
}

impl GenOpts {
    pub fn swarm(t: &mut Tape) -> GenOpts {
        GenOpts {
            budget: *t.pick(&[5i64, 12, 30, 80, 200, 400]),
            allow_a2ml: t.chance(1, 2),
            allow_ifdata: t.chance(2, 3),
            unicode: t.chance(1, 2),
            wild_numbers: t.chance(2, 3),
            float_overflow: t.chance(1, 24),
            escapes: t.chance(2, 3),
            raw_newline_strings: t.chance(1, 8),
            density: *t.pick(&[3u64, 6, 10]),
            // only C01 turns this on (its model comparison knows about the writer's reordering by position)
            shuffle_positions: false,
            // only C03 turns this on: such a block does not survive a write/reload cycle unchanged (raw text
            // becomes a quoted string), which is a property of this artificial construct, not a finding
            ifdata_a2ml_block: false,
            // only C01 (non-strict histories) turns this on
            unusable_a2ml: false,
        }
    }

    pub fn plain(budget: i64) -> GenOpts {
        GenOpts { budget, allow_a2ml: false, allow_ifdata: false, unicode: false, wild_numbers: false, float_overflow: false, escapes: false, raw_newline_strings: false, density: 6, shuffle_positions: false, ifdata_a2ml_block: false, unusable_a2ml: false }
    }
}

pub struct DocGen<'t> {
    pub t: &'t mut Tape,
    pub opts: GenOpts,
    pub version: u32,
    /// the version the file declares when it differs from the one its content is generated for (content newer or
    /// older than the header says: accepted with diagnostics by non-strict loading)
    pub declared: Option<u32>,
    pub feats: Features,
    counter: u64,
    budget: i64,
    pub a2ml_variant: Option<crate::a2mlgen::A2mlDef>,
    /// number of A2ML blocks generated (one per MODULE at most)
    pub a2ml_count: u32,
}

pub const VERSIONS: [u32; 6] = [150, 151, 160, 161, 170, 171];

impl<'t> DocGen<'t> {
    pub fn new(t: &'t mut Tape, opts: GenOpts) -> DocGen<'t> {
        let version = *t.pick(&VERSIONS);
        let budget = opts.budget;
        DocGen { t, opts, version, declared: None, feats: Features::default(), counter: 0, budget, a2ml_variant: None, a2ml_count: 0 }
    }

    fn vok(&self, min: Option<u32>, max: Option<u32>) -> bool {
        min.is_none_or(|m| self.version >= m) && max.is_none_or(|m| self.version <= m)
    }

    pub fn ident(&mut self) -> String {
        self.counter += 1;
        let stem = *self.t.pick(&["a", "B.c", "d[1]", "e_f", "Long_Identifier.With.Parts[12]", "x"]);
        format!("p_{stem}{}", self.counter)
    }

    pub fn string_content(&mut self) -> String {
        // the *content* is produced here; string_literal() chooses the notation
        let n = self.t.draw(4);
        let mut s = String::new();
        for _ in 0..n {
            let pieces_plain: [&str; 8] = ["abc", " ", "a b c", "%5.2", "x", "Label_1", "/begin", "// no comment"];
            let k = self.t.draw(12);
            match k {
                0..=5 => s.push_str(self.t.pick_str(&pieces_plain)),
                6 if self.opts.unicode => {
                    self.feats.non_ascii = true;
                    // includes Latin-1 text whose bytes form well-formed UTF-8 sequences ("Â°" = C2 B0): only the whole
                    // file decides between UTF-8 and Latin-1, never a prefix of it
                    s.push_str(self.t.pick_str(&["ü", "°C", "Größe", "µ", "日本", "Ω", "é", "\u{a0}", "Â°", "Ã¤", "Ã¼ber", "ÿþ", "\u{feff}", "\u{fffe}", "\u{ffff}", "\u{d7ff}", "\u{e000}", "\u{80}", "\u{9f}", "þÿ"]));
                }
                7 if self.opts.unicode => {
                    self.feats.non_ascii = true;
                    self.feats.non_bmp = true;
                    s.push_str(self.t.pick_str(&["😀", "𝄞", "\u{10ffff}", "\u{10000}", "\u{1fffe}"]));
                }
                8 if self.opts.escapes => {
                    self.feats.escapes = true;
                    s.push_str(self.t.pick_str(&["\"", "\\", "'", "\n", "\t", "\r", "\\x", "\"\"", "\\\\"]));
                }
                9 if self.opts.escapes => {
                    self.feats.escapes = true;
                    // "\\n" is a backslash followed by the letter n (not a line break): it must come back as two characters
                    s.push_str(self.t.pick_str(&["a\"b", "C:\\dir\\file", "it's", "tab\there", "*/", "/*", "\\n", "\\t", "\\r", "\\\"", "\\'"]));
                }
                _ => s.push_str("z"),
            }
        }
        s
    }

    /// quoted literal for a string content; picks among the equivalent escape notations
    pub fn string_literal(&mut self, content: &str) -> String {
        let mut out = String::from("\"");
        for c in content.chars() {
            match c {
                '"' => out.push_str(if self.t.chance(1, 2) { "\\\"" } else { "\"\"" }),
                '\\' => out.push_str("\\\\"),
                '\'' => out.push_str(if self.t.chance(1, 2) { "\\'" } else { "'" }),
                '\n' => {
                    if self.opts.raw_newline_strings && self.t.chance(1, 2) {
                        self.feats.raw_newline_in_string = true;
                        out.push('\n');
                    } else {
                        out.push_str("\\n");
                    }
                }
                '\t' => out.push_str(if self.t.chance(1, 2) { "\\t" } else { "\t" }),
                '\r' => out.push_str("\\r"),
                c => out.push(c),
            }
        }
        out.push('"');
        out
    }

    pub fn int_lit(&mut self, lo: i128, hi: i128, bits: u32) -> String {
        let k = if self.opts.wild_numbers { self.t.draw(8) } else { self.t.draw(3) };
        match k {
            0 => "0".to_string(),
            1 => "1".to_string(),
            2 => {
                let span = (hi - lo + 1) as u128;
                let r = u128::from(self.t.draw_u64()) % span;
                (lo + r as i128).to_string()
            }
            3 => hi.to_string(),
            4 => lo.to_string(),
            5 => {
                self.feats.hex_or_exp = true;
                // hex within the width of the field; upper or lower case prefix and digits
                let maxv: u128 = if bits == 64 { u128::from(u64::MAX) } else { (1u128 << bits) - 1 };
                let v = match self.t.draw(3) {
                    0 => maxv,
                    1 => 0x10,
                    _ => u128::from(self.t.draw_u64()) % (maxv + 1),
                };
                match self.t.draw(3) {
                    0 => format!("0x{v:X}"),
                    1 => format!("0x{v:x}"),
                    _ => format!("0X{v:04X}"),
                }
            }
            6 => {
                // leading zeros / explicit sign are accepted by the integer parser
                let v = self.t.draw(100);
                format!("00{v}")
            }
            _ => {
                let v = self.t.draw(10);
                if lo < 0 {
                    // "-0" is not generated: it is accepted by signed but not by unsigned integer members, while its
                    // written form "0" is accepted by both, so that in IF_DATA a preceding sequence of unsigned
                    // integers would claim it after a write (a degenerate literal, documented as input assumption)
                    format!("-{}", v.max(1))
                } else {
                    format!("+{v}")
                }
            }
        }
    }

    pub fn float_lit(&mut self, double: bool) -> String {
        if self.opts.float_overflow && self.t.chance(1, 8) {
            self.feats.float_overflow = true;
            return (*self.t.pick(&["1e999", "-1e999", "3.5e38"])).to_string();
        }
        let plain: [&str; 10] = ["0", "1", "-1.5", "100", "0.5", "123456789.125", "-0.25", "42", "3.0", "1000000"];
        if !self.opts.wild_numbers {
            return (*self.t.pick(&plain)).to_string();
        }
        match self.t.draw(6) {
            0 | 1 => (*self.t.pick(&plain)).to_string(),
            2 => {
                self.feats.hex_or_exp = true;
                (*self.t.pick(&["1e3", "1.0E-3", "-2.5e+10", "1e11", "3.4e38", "1E-30", "-1.17549435E-38", "6.02e23", "1e-5", "0.0001", "1e10"])).to_string()
            }
            3 => {
                self.feats.hex_or_exp = true;
                (*self.t.pick(&["0x10", "0xFFFF", "0XAB", "0x0"])).to_string()
            }
            4 => {
                let a = self.t.draw(100_000);
                if self.t.chance(1, 2) {
                    let b = self.t.draw(1000);
                    format!("{}{a}.{b:03}", if self.t.chance(1, 3) { "-" } else { "" })
                } else {
                    // many significant digits: every digit the field type can hold must survive
                    let b = self.t.draw(1_000_000_000_000);
                    format!("{}{}.{b:012}", if self.t.chance(1, 3) { "-" } else { "" }, a % 1000)
                }
            }
            _ => {
                if double {
                    (*self.t.pick(&["1.7976931348623157e308", "2.2250738585072014e-308", "0.1", "1e-320", "123456789012345678", "-0.0"])).to_string()
                } else {
                    (*self.t.pick(&["0.1", "16777217", "1e-45", "3.4028235e38", "-0.0", ".5", "5."])).to_string()
                }
            }
        }
    }

    fn lit(&mut self, ty: &str, out: &mut Vec<Item>) {
        let g = grammar();
        let s = match ty {
            "ident" => self.ident(),
            "string" => {
                let c = self.string_content();
                self.string_literal(&c)
            }
            "uint" => self.int_lit(0, 65535, 16),
            "int" => self.int_lit(-32768, 32767, 16),
            "ulong" => self.int_lit(0, 4_294_967_295, 32),
            "long" => self.int_lit(-2_147_483_648, 2_147_483_647, 32),
            "uint64" => self.int_lit(0, i128::from(u64::MAX), 64),
            "int64" => self.int_lit(i128::from(i64::MIN), i128::from(i64::MAX), 64),
            "uchar" => self.int_lit(0, 255, 8),
            "char" => self.int_lit(-128, 127, 8),
            "float" => self.float_lit(false),
            "double" => self.float_lit(true),
            _ => {
                if let Some(idx) = ty.find('[') {
                    let base = &ty[..idx];
                    let n: usize = ty[idx + 1..ty.len() - 1].parse().unwrap();
                    for _ in 0..n {
                        self.lit(base, out);
                    }
                    return;
                }
                let items: Vec<&EnumItem> = g.enums.get(ty).unwrap_or_else(|| panic!("unknown type {ty}")).iter().filter(|i| self.vok(i.min, i.max)).collect();
                self.t.pick(&items).name.clone()
            }
        };
        out.push(Item::Tok(s));
    }

    fn is_greedy(tag: &str) -> bool {
        let e = &grammar().elements[tag];
        if e.block {
            return false;
        }
        matches!(e.params.last(), Some(Param::List(fields)) if fields[0].ty == "ident")
    }

    pub fn element(&mut self, tag: &str, depth: u32) -> Node {
        self.t.begin_group();
        let node = self.element_inner(tag, depth);
        self.t.end_group();
        node
    }

    fn element_inner(&mut self, tag: &str, depth: u32) -> Node {
        let g = grammar();
        let el = g.elements.get(tag).unwrap_or_else(|| panic!("unknown element {tag}"));
        self.budget -= 1;
        let mut node = Node { tag: tag.to_string(), block: el.block, body: Vec::new(), name: None };
        if tag == "A2ML" {
            let def = crate::a2mlgen::gen_a2ml(self.t);
            if self.opts.unusable_a2ml {
                // the IF_DATA in the rest of the file then stay uninterpreted
                let text = self.t.pick_str(&["\n    struct Only_a_type { int; };\n  ", "\n    block \"IF_DATA\" taggedunion { \"X\" unknown_type; };\n  ", "\n    this is not A2ML at all;\n  ", " "]);
                node.body.push(Item::Raw(text.to_string()));
                self.feats.a2ml = true;
                self.feats.unusable_a2ml = true;
                return node;
            }
            node.body.push(Item::Raw(def.text.clone()));
            self.a2ml_variant = Some(def);
            self.a2ml_count += 1;
            if self.a2ml_count >= 2 {
                self.feats.multi_a2ml = true;
            }
            self.feats.a2ml = true;
            return node;
        }
        if tag == "IF_DATA" {
            self.feats.if_data = true;
            let def = self.a2ml_variant.clone();
            crate::a2mlgen::gen_ifdata_body(self, def.as_ref(), &mut node.body);
            return node;
        }
        for (pi, p) in el.params.iter().enumerate() {
            match p {
                Param::Single(f) => {
                    if tag == "ASAP2_VERSION" {
                        let dv = self.declared.unwrap_or(self.version);
                        let v = if f.name == "version_no" { dv / 100 } else { dv % 100 };
                        node.body.push(Item::Tok(v.to_string()));
                    } else if pi == 0 && f.name == "position" && f.ty == "uint" {
                        // position-restricted siblings (children of RECORD_LAYOUT) are emitted in ascending position
                        // order: the writer's documented reordering by position is an input precondition of C01
                        self.counter += 1;
                        node.body.push(Item::Tok((self.counter % 60000).to_string()));
                    } else {
                        let before = node.body.len();
                        self.lit(&f.ty, &mut node.body);
                        if pi == 0 && f.ty == "ident" && f.name == "name" {
                            if let Some(Item::Tok(n)) = node.body.get(before) {
                                node.name = Some(n.clone());
                            }
                        }
                    }
                }
                Param::List(fields) => {
                    let reps = *self.t.pick(&[0u32, 1, 1, 3, 7]);
                    for _ in 0..reps {
                        for f in fields {
                            self.lit(&f.ty, &mut node.body);
                        }
                    }
                }
            }
        }
        // sub-elements
        let mut items: Vec<String> = Vec::new();
        for s in &el.subs {
            if !self.vok(s.min, s.max) {
                continue;
            }
            let req = matches!(s.mult, Mult::Req | Mult::ReqMany);
            let many = matches!(s.mult, Mult::Many | Mult::ReqMany);
            if (s.tags[0] == "A2ML" && !self.opts.allow_a2ml) || (s.tags[0] == "IF_DATA" && !self.opts.allow_ifdata) {
                continue;
            }
            if s.tags.len() > 1 {
                for t in &s.tags {
                    if self.budget > 0 && self.t.chance(3, 10) {
                        items.push(t.clone());
                    }
                }
            } else if req {
                let n = if many { *self.t.pick(&[1u32, 1, 2]) } else { 1 };
                for _ in 0..n {
                    items.push(s.tags[0].clone());
                }
            } else {
                let pr = if self.budget <= 0 {
                    0
                } else if depth < 2 {
                    self.opts.density
                } else {
                    self.opts.density / 2
                };
                if self.t.chance(pr, 16) {
                    let n = if many {
                        if depth == 1 && self.budget > 20 {
                            // MODULE level lists: use the budget
                            *self.t.pick(&[1u32, 2, 3, 5, 8])
                        } else {
                            *self.t.pick(&[1u32, 2, 3])
                        }
                    } else {
                        1
                    };
                    for _ in 0..n {
                        items.push(s.tags[0].clone());
                    }
                }
            }
        }
        // random order (Fisher-Yates driven by the tape)
        for i in (1..items.len()).rev() {
            let j = self.t.draw(i as u64 + 1) as usize;
            items.swap(i, j);
        }
        // a keyword that ends in an open-ended identifier list swallows following keywords:
        // at most one of them, placed after all other keywords and followed only by blocks
        let greedy: Vec<String> = items.iter().filter(|t| Self::is_greedy(t)).cloned().collect();
        let rest: Vec<String> = items.iter().filter(|t| !Self::is_greedy(t)).cloned().collect();
        let kw: Vec<String> = rest.iter().filter(|t| !g.elements[*t].block).cloned().collect();
        let bl: Vec<String> = rest.iter().filter(|t| g.elements[*t].block).cloned().collect();
        let mut ordered: Vec<String> = if greedy.is_empty() && self.t.chance(1, 2) {
            rest.clone() // fully mixed order
        } else {
            let mut o = kw;
            o.extend(greedy.into_iter().take(1));
            o.extend(bl);
            o
        };
        if tag == "A2L_FILE" {
            ordered = ["ASAP2_VERSION", "A2ML_VERSION", "PROJECT"].iter().filter(|t| ordered.iter().any(|o| o == *t)).map(|s| (*s).to_string()).collect();
        }
        if tag == "MODULE" {
            if let Some(pos) = ordered.iter().position(|t| t == "A2ML") {
                let a = ordered.remove(pos);
                ordered.insert(0, a);
            }
        }
        for t in ordered {
            let child = self.element(&t, depth + 1);
            node.body.push(Item::Node(child));
        }
        if tag == "RECORD_LAYOUT" && self.opts.shuffle_positions {
            // exchange the position values of the position-restricted children: the writer will reorder them
            let idxs: Vec<usize> = node
                .body
                .iter()
                .enumerate()
                .filter(|(_, it)| matches!(it, Item::Node(c) if matches!(g.elements[&c.tag].params.first(), Some(Param::Single(f)) if f.name == "position")))
                .map(|(i, _)| i)
                .collect();
            if idxs.len() >= 2 {
                let mut positions: Vec<String> = idxs.iter().map(|i| if let Item::Node(c) = &node.body[*i] { if let Some(Item::Tok(p)) = c.body.first() { p.clone() } else { String::new() } } else { String::new() }).collect();
                for i in (1..positions.len()).rev() {
                    let j = self.t.draw(i as u64 + 1) as usize;
                    positions.swap(i, j);
                }
                for (k, i) in idxs.iter().enumerate() {
                    if let Item::Node(c) = &mut node.body[*i] {
                        if let Some(Item::Tok(p)) = c.body.first_mut() {
                            *p = positions[k].clone();
                        }
                    }
                }
                self.feats.positions_out_of_order = true;
            }
        }
        node
    }

    /// a whole file: returns the top-level items (ASAP2_VERSION, [A2ML_VERSION], PROJECT)
    pub fn document(&mut self) -> Vec<Node> {
        let mut out = Vec::new();
        out.push(self.element("ASAP2_VERSION", 0));
        if self.t.chance(1, 2) {
            out.push(self.element("A2ML_VERSION", 0));
        }
        out.push(self.element("PROJECT", 0));
        out
    }

    /// the content of a MODULE (for the fragment entry points): returns the children of a generated MODULE
    pub fn fragment(&mut self) -> Vec<Node> {
        let m = self.element("MODULE", 1);
        m.body.into_iter().filter_map(|i| if let Item::Node(n) = i { Some(n) } else { None }).collect()
    }
}

// ------------------------------------------------------------------------------------------------
// layout / rendering

#[derive(Debug, Clone)]
pub struct LayoutOpts {
    /// 0: canonical (one element per line, single spaces), 1: mild variation, 2: wild
    pub style: u8,
    pub comments: bool,
    pub multiline_comments: bool,
    pub crlf: bool,
    pub unicode_comments: bool,
    pub leading_blank: bool,
    pub trailing_newline: bool,
}

impl LayoutOpts {
    pub fn swarm(t: &mut Tape) -> LayoutOpts {
        LayoutOpts {
            style: t.draw(3) as u8,
            comments: t.chance(1, 2),
            multiline_comments: t.chance(1, 3),
            crlf: t.chance(1, 4),
            unicode_comments: t.chance(1, 3),
            leading_blank: t.chance(1, 4),
            trailing_newline: t.chance(3, 4),
        }
    }

    pub fn canonical() -> LayoutOpts {
        LayoutOpts { style: 0, comments: false, multiline_comments: false, crlf: false, unicode_comments: false, leading_blank: false, trailing_newline: true }
    }
}

#[derive(Debug, Clone, Copy, PartialEq, Eq)]
pub enum SpanKind {
    Begin,
    End,
    Tag,
    Tok,
    Raw,
    Comment,
}

#[derive(Debug, Clone)]
pub struct Span {
    pub start: usize,
    pub end: usize,
    pub kind: SpanKind,
}

pub struct Rendered {
    pub text: String,
    pub spans: Vec<Span>,
    pub feats: Features,
}

#[derive(Debug, Clone)]
pub struct RDirective {
    /// byte span of the whole directive ("/include" .. end of the name) in the including file's text
    pub start: usize,
    pub end: usize,
    /// line (1-based) of the file name token
    pub line: u32,
    pub name: String,
    pub quoted: bool,
    pub a2ml_level: bool,
    pub file: RenderedFile,
}

#[derive(Debug, Clone)]
pub struct RenderedFile {
    pub path: String,
    pub text: String,
    pub spans: Vec<Span>,
    pub directives: Vec<RDirective>,
    pub feats: Features,
}

impl RenderedFile {
    /// the flattened text: every directive replaced by the content of its target, recursively.
    /// A2L-level content gets a line break on both sides so that no two tokens fuse; A2ML-level substitution is byte exact.
    pub fn flatten(&self) -> String {
        let mut out = String::new();
        let mut pos = 0;
        let mut ds: Vec<&RDirective> = self.directives.iter().collect();
        ds.sort_by_key(|d| d.start);
        for d in ds {
            out.push_str(&self.text[pos..d.start]);
            if d.a2ml_level {
                // the directive stands for the tokens of the file: a line comment that the file ends in must not
                // swallow what follows the directive
                out.push_str(&d.file.text);
                if !d.file.text.ends_with('\n') && d.file.text.rsplit('\n').next().is_some_and(|l| l.contains("//")) {
                    out.push('\n');
                }
            } else {
                out.push('\n');
                out.push_str(&d.file.flatten());
                out.push('\n');
            }
            pos = d.end;
        }
        out.push_str(&self.text[pos..]);
        out
    }

    /// does this file (or a file it includes) contribute at least one element
    pub fn has_elements(&self) -> bool {
        self.spans.iter().any(|s| s.kind == SpanKind::Tag) || self.directives.iter().any(|d| !d.a2ml_level && d.file.has_elements())
    }

    pub fn all_files(&self) -> Vec<&RenderedFile> {
        let mut v = vec![self];
        for d in &self.directives {
            v.extend(d.file.all_files());
        }
        v
    }

    pub fn all_directives(&self) -> Vec<(&RenderedFile, &RDirective, u32)> {
        fn walk<'a>(f: &'a RenderedFile, depth: u32, out: &mut Vec<(&'a RenderedFile, &'a RDirective, u32)>) {
            for d in &f.directives {
                out.push((f, d, depth));
                walk(&d.file, depth + 1, out);
            }
        }
        let mut out = Vec::new();
        walk(self, 1, &mut out);
        out
    }
}

struct PendingInc {
    start: usize,
    end: usize,
    line: u32,
    inc: IncRef,
}

pub struct Renderer<'t> {
    t: &'t mut Tape,
    lo: LayoutOpts,
    out: String,
    spans: Vec<Span>,
    nl: &'static str,
    feats: Features,
    /// > 0 while inside IF_DATA: the library cannot handle comments between the blocks of uninterpreted IF_DATA
    in_ifdata: u32,
    pending: Vec<PendingInc>,
    a2ml_directives: Vec<RDirective>,
}

impl<'t> Renderer<'t> {
    pub fn new(t: &'t mut Tape, lo: LayoutOpts) -> Renderer<'t> {
        let nl = if lo.crlf { "\r\n" } else { "\n" };
        Renderer { t, lo, out: String::new(), spans: Vec::new(), nl, feats: Features::default(), in_ifdata: 0, pending: Vec::new(), a2ml_directives: Vec::new() }
    }

    fn newline(&mut self, n: usize, indent: usize) {
        for _ in 0..n {
            self.out.push_str(self.nl);
        }
        // indentation: two spaces per level, tabs or nothing in the wild style
        match if self.lo.style == 2 { self.t.draw(4) } else { 0 } {
            0 | 1 => {
                for _ in 0..indent {
                    self.out.push_str("  ");
                }
            }
            2 => {
                for _ in 0..indent {
                    self.out.push('\t');
                }
            }
            _ => {}
        }
    }

    fn comment(&mut self, indent: usize) {
        self.feats.comments = true;
        let uni = self.lo.unicode_comments && self.t.chance(1, 2);
        let start = self.out.len();
        let body = if uni {
            self.feats.non_ascii = true;
            *self.t.pick(&["Größe in °C", "日本語 comment", "emoji 😀 here"])
        } else {
            *self.t.pick(&["comment", "**** section ****", "/begin FAKE", "x \"quoted\" y", "", "a // b"])
        };
        if self.t.chance(1, 2) {
            // line comment: must be followed by a line break
            self.out.push_str("//");
            self.out.push_str(body);
            self.spans.push(Span { start, end: self.out.len(), kind: SpanKind::Comment });
            self.newline(1, indent);
        } else if self.lo.multiline_comments && self.t.chance(1, 2) {
            self.feats.multiline_comments = true;
            let lines = 1 + self.t.draw(3) as usize;
            self.out.push_str("/* ");
            self.out.push_str(body);
            for _ in 0..lines {
                self.out.push_str(self.nl);
                self.out.push_str("   more ");
            }
            self.out.push_str("*/");
            self.spans.push(Span { start, end: self.out.len(), kind: SpanKind::Comment });
        } else {
            self.out.push_str("/*");
            self.out.push_str(body);
            self.out.push_str("*/");
            self.spans.push(Span { start, end: self.out.len(), kind: SpanKind::Comment });
        }
    }

    /// separator before an element (block-level position): comments here are preserved by the library
    fn sep_element(&mut self, indent: usize, first_in_file: bool) {
        if first_in_file {
            if self.lo.leading_blank {
                let n = 1 + self.t.draw(2) as usize;
                self.newline(n, indent);
            }
        } else {
            match self.lo.style {
                0 => self.newline(1, indent),
                1 => {
                    let n = *self.t.pick(&[1usize, 1, 2, 3]);
                    self.newline(n, indent);
                }
                _ => {
                    let n = *self.t.pick(&[0usize, 1, 1, 2, 4]);
                    if n == 0 {
                        self.out.push(' ');
                    } else {
                        self.newline(n, indent);
                    }
                }
            }
        }
        if self.lo.comments && self.in_ifdata == 0 && self.t.chance(1, 6) {
            self.comment(indent);
            match self.t.draw(3) {
                0 => self.out.push(' '),
                _ => {
                    let n = 1 + self.t.draw(2) as usize;
                    self.newline(n, indent);
                }
            }
        }
    }

    /// separator between the tokens of one element
    fn sep_token(&mut self, indent: usize) {
        match self.lo.style {
            0 => self.out.push(' '),
            1 => {
                if self.t.chance(1, 8) {
                    self.newline(1, indent + 1);
                } else {
                    self.out.push(' ');
                }
            }
            _ => match self.t.draw(10) {
                0 => self.newline(1, indent + 1),
                1 => self.newline(2, indent),
                2 => self.out.push_str("   "),
                3 => self.out.push('\t'),
                4 if self.lo.comments => {
                    self.out.push(' ');
                    self.comment(indent + 1);
                    self.out.push(' ');
                }
                _ => self.out.push(' '),
            },
        }
    }

    fn tok(&mut self, text: &str, kind: SpanKind) {
        let start = self.out.len();
        self.out.push_str(text);
        self.spans.push(Span { start, end: self.out.len(), kind });
    }

    pub fn node(&mut self, n: &Node, indent: usize, first_in_file: bool) {
        self.t.begin_group();
        self.node_inner(n, indent, first_in_file);
        self.t.end_group();
    }

    fn node_inner(&mut self, n: &Node, indent: usize, first_in_file: bool) {
        self.sep_element(indent, first_in_file);
        if n.block {
            self.tok("/begin", SpanKind::Begin);
            // the tag follows on the same line, in the wild style on the next one
            if self.lo.style == 2 && self.t.chance(1, 12) {
                self.newline(1, indent + 1);
            } else {
                self.out.push(' ');
            }
        }
        self.tok(&n.tag, SpanKind::Tag);
        if n.tag == "IF_DATA" || self.in_ifdata > 0 {
            self.in_ifdata += 1;
        }
        let mut last_was_raw = false;
        for it in &n.body {
            match it {
                Item::Tok(s) => {
                    self.sep_token(indent);
                    self.tok(s, SpanKind::Tok);
                }
                Item::Raw(s) => {
                    // raw A2ML text: starts on a new line; its own line breaks follow the document's convention
                    self.out.push_str(self.nl);
                    let text = if self.lo.crlf { s.replace('\n', "\r\n") } else { s.clone() };
                    self.tok(&text, SpanKind::Raw);
                    last_was_raw = true;
                }
                Item::Node(c) => self.node(c, indent + 1, false),
                Item::Inc(inc) => self.include(inc, indent + 1, false),
                Item::RawInc(ri) => {
                    self.out.push_str(self.nl);
                    let conv = |s: &str, crlf: bool| if crlf { s.replace('\n', "\r\n") } else { s.to_string() };
                    let start_all = self.out.len();
                    self.out.push_str(&conv(&ri.before, self.lo.crlf));
                    let dstart = self.out.len();
                    self.out.push_str("/include ");
                    if ri.quoted {
                        self.out.push('"');
                        self.out.push_str(&ri.name);
                        self.out.push('"');
                    } else {
                        self.out.push_str(&ri.name);
                    }
                    let dend = self.out.len();
                    let line = 1 + self.out[..dstart].bytes().filter(|b| *b == b'\n').count() as u32;
                    self.out.push_str(&conv(&ri.after, self.lo.crlf));
                    self.spans.push(Span { start: start_all, end: self.out.len(), kind: SpanKind::Raw });
                    // the included A2ML text keeps LF line ends: the library normalises the line ends of the A2ML block
                    // but (naturally) not those of a separately stored file, and the reference text is built the same way
                    let content = ri.content.clone();
                    self.a2ml_directives.push(RDirective {
                        start: dstart,
                        end: dend,
                        line,
                        name: ri.name.clone(),
                        quoted: ri.quoted,
                        a2ml_level: true,
                        file: RenderedFile { path: ri.path.clone(), text: content, spans: Vec::new(), directives: Vec::new(), feats: Features::default() },
                    });
                    last_was_raw = true;
                }
            }
        }
        if n.block {
            let has_children = n.children().next().is_some();
            if last_was_raw {
                self.newline(1, indent);
            } else if has_children || self.lo.style == 0 && !n.body.is_empty() && n.body.len() > 3 {
                match self.lo.style {
                    0 => self.newline(1, indent),
                    // "/end" on the line of the last child: the recorded end offset is then 0
                    2 if self.t.chance(1, 5) => self.out.push(' '),
                    _ => {
                        let k = *self.t.pick(&[1usize, 1, 2]);
                        self.newline(k, indent);
                    }
                }
            } else {
                match self.lo.style {
                    2 if self.t.chance(1, 4) => self.newline(1, indent),
                    _ => self.out.push(' '),
                }
            }
            if self.lo.comments && self.in_ifdata == 0 && self.t.chance(1, 12) {
                self.comment(indent);
                self.newline(1, indent);
            }
            self.tok("/end", SpanKind::End);
            self.out.push(' ');
            self.tok(&n.tag, SpanKind::Tag);
        }
        if self.in_ifdata > 0 {
            self.in_ifdata -= 1;
        }
    }

    pub fn include(&mut self, inc: &IncRef, indent: usize, first_in_file: bool) {
        self.t.begin_group();
        self.include_inner(inc, indent, first_in_file);
        self.t.end_group();
    }

    fn include_inner(&mut self, inc: &IncRef, indent: usize, first_in_file: bool) {
        self.sep_element(indent, first_in_file);
        let start = self.out.len();
        self.tok("/include", SpanKind::Begin);
        if self.lo.style == 2 && self.t.chance(1, 6) {
            self.out.push_str("   ");
        } else {
            self.out.push(' ');
        }
        let line = 1 + self.out.bytes().filter(|b| *b == b'\n').count() as u32;
        let name = if inc.quoted { format!("\"{}\"", inc.name) } else { inc.name.clone() };
        self.tok(&name, SpanKind::Tok);
        let end = self.out.len();
        self.pending.push(PendingInc { start, end, line, inc: inc.clone() });
    }

    pub fn finish(mut self) -> Rendered {
        if self.lo.comments && self.t.chance(1, 8) {
            self.newline(1, 0);
            self.comment(0);
        }
        if self.lo.trailing_newline {
            self.out.push_str(self.nl);
        }
        self.feats.crlf = self.lo.crlf;
        Rendered { text: self.out, spans: self.spans, feats: self.feats }
    }
}

pub fn render_nodes(t: &mut Tape, nodes: &[Node], lo: &LayoutOpts, base_indent: usize) -> Rendered {
    let mut r = Renderer::new(t, lo.clone());
    for (i, n) in nodes.iter().enumerate() {
        r.node(n, base_indent, i == 0);
    }
    r.finish()
}

/// render a file given as a list of items (nodes and include directives); included files are rendered recursively
pub fn render_file(t: &mut Tape, path: &str, items: &[Item], lo: &LayoutOpts, base_indent: usize) -> RenderedFile {
    render_file_in(t, path, items, lo, base_indent, false)
}

fn render_file_in(t: &mut Tape, path: &str, items: &[Item], lo: &LayoutOpts, base_indent: usize, in_ifdata: bool) -> RenderedFile {
    let (text, spans, feats, pending, a2ml_directives) = {
        let mut r = Renderer::new(t, lo.clone());
        if in_ifdata {
            r.in_ifdata = 1;
        }
        let mut first = true;
        for it in items {
            match it {
                Item::Node(n) => r.node(n, base_indent, first),
                Item::Inc(inc) => r.include(inc, base_indent, first),
                _ => panic!("only nodes and includes at file level"),
            }
            first = false;
        }
        let pending = std::mem::take(&mut r.pending);
        let a2ml_directives = std::mem::take(&mut r.a2ml_directives);
        let rendered = r.finish();
        (rendered.text, rendered.spans, rendered.feats, pending, a2ml_directives)
    };
    let mut directives = a2ml_directives;
    for p in pending {
        // an included file has its own layout: own line-end convention is kept, the rest is drawn again
        t.begin_group();
        let mut child_lo = LayoutOpts::swarm(t);
        child_lo.crlf = lo.crlf;
        child_lo.leading_blank = t.chance(1, 3);
        let file = render_file_in(t, &p.inc.path, &p.inc.items, &child_lo, base_indent, p.inc.in_ifdata);
        t.end_group();
        directives.push(RDirective { start: p.start, end: p.end, line: p.line, name: p.inc.name.clone(), quoted: p.inc.quoted, a2ml_level: false, file });
    }
    RenderedFile { path: path.to_string(), text, spans, directives, feats }
}

pub fn merge_feats(a: &Features, b: &Features) -> Features {
    Features {
        comments: a.comments || b.comments,
        multiline_comments: a.multiline_comments || b.multiline_comments,
        non_ascii: a.non_ascii || b.non_ascii,
        non_bmp: a.non_bmp || b.non_bmp,
        hex_or_exp: a.hex_or_exp || b.hex_or_exp,
        float_overflow: a.float_overflow || b.float_overflow,
        if_data: a.if_data || b.if_data,
        a2ml: a.a2ml || b.a2ml,
        crlf: a.crlf || b.crlf,
        raw_newline_in_string: a.raw_newline_in_string || b.raw_newline_in_string,
        escapes: a.escapes || b.escapes,
        multi_a2ml: a.multi_a2ml || b.multi_a2ml,
        positions_out_of_order: a.positions_out_of_order || b.positions_out_of_order,
        unusable_a2ml: a.unusable_a2ml || b.unusable_a2ml,
    }
}

pub fn feats_string(f: &Features) -> String {
    let mut v = Vec::new();
    if f.comments {
        v.push("comments");
    }
    if f.multiline_comments {
        v.push("multiline-comments");
    }
    if f.non_ascii {
        v.push("non-ascii");
    }
    if f.non_bmp {
        v.push("non-bmp");
    }
    if f.hex_or_exp {
        v.push("hex/exp");
    }
    if f.float_overflow {
        v.push("float-overflow");
    }
    if f.if_data {
        v.push("if_data");
    }
    if f.a2ml {
        v.push("a2ml");
    }
    if f.crlf {
        v.push("crlf");
    }
    if f.raw_newline_in_string {
        v.push("raw-newline-string");
    }
    if f.escapes {
        v.push("escapes");
    }
    v.join(",")
}
