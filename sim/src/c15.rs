//! C15: sort_new_items() over long edit histories {push new element, merge, sort_new_items, write, reload},
//! observed after every step against an order model. History dimension only: nothing here is
//! nondeterministic; the defect class is state (position ids) accumulating across calls.

use crate::runner::{guarded, Cx, Scenario, Tier, Violation};
use crate::sut;
use crate::vfs::SimFs;
use a2lfile::*;
use std::collections::{BTreeMap, BTreeSet};

pub struct C15Histories;

pub const KINDS: [&str; 20] = [
    "AXIS_PTS", "BLOB", "CHARACTERISTIC", "COMPU_METHOD", "COMPU_TAB", "COMPU_VTAB", "COMPU_VTAB_RANGE", "FRAME", "FUNCTION", "GROUP", "INSTANCE", "MEASUREMENT", "RECORD_LAYOUT", "TRANSFORMER", "TYPEDEF_AXIS",
    "TYPEDEF_BLOB", "TYPEDEF_CHARACTERISTIC", "TYPEDEF_MEASUREMENT", "TYPEDEF_STRUCTURE", "UNIT",
];

fn element_text(kind: &str, name: &str) -> String {
    let body = match kind {
        "AXIS_PTS" => "\"\" 0 NO_INPUT_QUANTITY rl 0 NO_COMPU_METHOD 1 0 0",
        "BLOB" => "\"\" 0 0",
        "CHARACTERISTIC" => "\"\" VALUE 0 rl 0 NO_COMPU_METHOD 0 0",
        "COMPU_METHOD" => "\"\" IDENTICAL \"%6.3\" \"\"",
        "COMPU_TAB" => "\"\" TAB_INTP 0",
        "COMPU_VTAB" => "\"\" TAB_VERB 0",
        "COMPU_VTAB_RANGE" => "\"\" 0",
        "FRAME" => "\"\" 0 0",
        "FUNCTION" | "GROUP" => "\"\"",
        "INSTANCE" => "\"\" some_type 0",
        "MEASUREMENT" | "TYPEDEF_MEASUREMENT" => "\"\" UBYTE NO_COMPU_METHOD 0 0 0 0",
        "RECORD_LAYOUT" => "",
        "TRANSFORMER" => "\"\" \"\" \"\" 0 ON_CHANGE NO_INVERSE_TRANSFORMER",
        "TYPEDEF_AXIS" => "\"\" NO_INPUT_QUANTITY rl 0 NO_COMPU_METHOD 1 0 0",
        "TYPEDEF_BLOB" | "TYPEDEF_STRUCTURE" => "\"\" 0",
        "TYPEDEF_CHARACTERISTIC" => "\"\" VALUE rl 0 NO_COMPU_METHOD 0 0",
        _ => "\"\" \"\" DERIVED",
    };
    format!("/begin {kind} {name} {body} /end {kind}")
}

fn push_new(module: &mut Module, kind: &str, name: &str) {
    let n = name.to_string();
    let e = String::new;
    match kind {
        "USER_RIGHTS" => module.user_rights.push(UserRights::new(n)),
        "IF_DATA" => {
            // an IF_DATA block built through the API: its content is the identifier that serves as its name here
            let mut d = IfData::new();
            d.ifdata_items = Some(GenericIfData::Block { incfile: None, line: 0, items: vec![GenericIfData::EnumItem(0, n)] });
            module.if_data.push(d);
        }
        "AXIS_PTS" => module.axis_pts.push(AxisPts::new(n, e(), 0, "NO_INPUT_QUANTITY".into(), "rl".into(), 0.0, "NO_COMPU_METHOD".into(), 1, 0.0, 0.0)),
        "BLOB" => module.blob.push(Blob::new(n, e(), 0, 0)),
        "CHARACTERISTIC" => module.characteristic.push(Characteristic::new(n, e(), CharacteristicType::Value, 0, "rl".into(), 0.0, "NO_COMPU_METHOD".into(), 0.0, 0.0)),
        "COMPU_METHOD" => module.compu_method.push(CompuMethod::new(n, e(), ConversionType::Identical, "%6.3".into(), e())),
        "COMPU_TAB" => module.compu_tab.push(CompuTab::new(n, e(), ConversionType::TabIntp, 0)),
        "COMPU_VTAB" => module.compu_vtab.push(CompuVtab::new(n, e(), ConversionType::TabVerb, 0)),
        "COMPU_VTAB_RANGE" => module.compu_vtab_range.push(CompuVtabRange::new(n, e(), 0)),
        "FRAME" => module.frame.push(Frame::new(n, e(), 0, 0)),
        "FUNCTION" => module.function.push(Function::new(n, e())),
        "GROUP" => module.group.push(Group::new(n, e())),
        "INSTANCE" => module.instance.push(Instance::new(n, e(), "some_type".into(), 0)),
        "MEASUREMENT" => module.measurement.push(Measurement::new(n, e(), DataType::Ubyte, "NO_COMPU_METHOD".into(), 0, 0.0, 0.0, 0.0)),
        "RECORD_LAYOUT" => module.record_layout.push(RecordLayout::new(n)),
        "TRANSFORMER" => module.transformer.push(Transformer::new(n, e(), e(), e(), 0, TransformerTrigger::OnChange, "NO_INVERSE_TRANSFORMER".into())),
        "TYPEDEF_AXIS" => module.typedef_axis.push(TypedefAxis::new(n, e(), "NO_INPUT_QUANTITY".into(), "rl".into(), 0.0, "NO_COMPU_METHOD".into(), 1, 0.0, 0.0)),
        "TYPEDEF_BLOB" => module.typedef_blob.push(TypedefBlob::new(n, e(), 0)),
        "TYPEDEF_CHARACTERISTIC" => module.typedef_characteristic.push(TypedefCharacteristic::new(n, e(), CharacteristicType::Value, "rl".into(), 0.0, "NO_COMPU_METHOD".into(), 0.0, 0.0)),
        "TYPEDEF_MEASUREMENT" => module.typedef_measurement.push(TypedefMeasurement::new(n, e(), DataType::Ubyte, "NO_COMPU_METHOD".into(), 0, 0.0, 0.0, 0.0)),
        "TYPEDEF_STRUCTURE" => module.typedef_structure.push(TypedefStructure::new(n, e(), 0)),
        _ => module.unit.push(Unit::new(n, e(), e(), UnitType::Derived)),
    }
}

/// the MODULE-level sequence of (kind, name) in a written text: a small independent scanner
/// (strings with both escape forms, both comment kinds, A2ML blocks are skipped)
pub fn scan_module_level(text: &str) -> Vec<Vec<(String, String)>> {
    let b = text.as_bytes();
    let n = b.len();
    let mut i = 0;
    let mut depth = 0i32;
    let mut out: Vec<Vec<(String, String)>> = Vec::new();
    let mut toks: Vec<(usize, usize)> = Vec::new();
    // tokenise
    while i < n {
        let c = b[i];
        if c.is_ascii_whitespace() {
            i += 1;
        } else if c == b'/' && i + 1 < n && b[i + 1] == b'/' {
            while i < n && b[i] != b'\n' {
                i += 1;
            }
        } else if c == b'/' && i + 1 < n && b[i + 1] == b'*' {
            i += 2;
            while i + 1 < n && !(b[i] == b'*' && b[i + 1] == b'/') {
                i += 1;
            }
            i += 2;
        } else if c == b'"' {
            let s = i;
            i += 1;
            loop {
                if i >= n {
                    break;
                }
                if b[i] == b'\\' {
                    i += 2;
                    continue;
                }
                if b[i] == b'"' {
                    if i + 1 < n && b[i + 1] == b'"' {
                        i += 2;
                        continue;
                    }
                    i += 1;
                    break;
                }
                i += 1;
            }
            toks.push((s, i.min(n)));
        } else {
            let s = i;
            while i < n && !b[i].is_ascii_whitespace() && b[i] != b'"' {
                i += 1;
            }
            toks.push((s, i));
            // raw A2ML text: skip to "/end A2ML"
            if &text[s..i] == "A2ML" && toks.len() >= 2 && &text[toks[toks.len() - 2].0..toks[toks.len() - 2].1] == "/begin" {
                if let Some(p) = text[i..].find("/end A2ML") {
                    i += p;
                }
            }
        }
    }
    let t = |k: usize| &text[toks[k].0..toks[k].1];
    let mut k = 0;
    while k < toks.len() {
        match t(k) {
            "/begin" => {
                if depth == 1 && k + 1 < toks.len() && t(k + 1) == "MODULE" {
                    out.push(Vec::new());
                }
                if depth == 2 && k + 2 < toks.len() {
                    if let Some(m) = out.last_mut() {
                        m.push((t(k + 1).to_string(), t(k + 2).to_string()));
                    }
                }
                depth += 1;
                k += 2;
            }
            "/end" => {
                depth -= 1;
                k += 2;
            }
            _ => k += 1,
        }
    }
    out
}

struct OrderModel {
    placed: Vec<(String, String)>,
    pending: Vec<(String, String)>,
}

fn check_order(cx: &Cx, om: &OrderModel, out: &[(String, String)], step: usize, op: &str) -> Result<BTreeMap<(String, String), usize>, Violation> {
    let mut pos: BTreeMap<(String, String), usize> = BTreeMap::new();
    for (i, e) in out.iter().enumerate() {
        if pos.insert(e.clone(), i).is_some() {
            return Err(cx.fail("order", "element-duplicated", format!("step {step} ({op}): {} {} appears twice in the output", e.0, e.1)));
        }
    }
    for e in om.placed.iter().chain(om.pending.iter()) {
        if !pos.contains_key(e) {
            return Err(cx.fail("order", "element-lost", format!("step {step} ({op}): {} {} is missing from the output", e.0, e.1)));
        }
    }
    if pos.len() != om.placed.len() + om.pending.len() {
        return Err(cx.fail("order", "element-invented", format!("step {step} ({op}): output has {} module-level elements, the model {}", pos.len(), om.placed.len() + om.pending.len())));
    }
    // the relative output order of placed elements never changes
    for w in om.placed.windows(2) {
        if pos[&w[0]] > pos[&w[1]] {
            return Err(cx.fail("order", "placed-elements-reordered", format!("step {step} ({op}): {} {} was placed before {} {} but is now written after it", w[0].0, w[0].1, w[1].0, w[1].1)));
        }
    }
    Ok(pos)
}

impl Scenario for C15Histories {
    fn property(&self) -> &'static str {
        "C15"
    }
    fn name(&self) -> &'static str {
        "sort_new_items_histories"
    }

    fn run(&self, cx: &mut Cx) -> Result<(), Violation> {
        let fs = SimFs::new("/work", cx.tape.draw_u64());
        fs.install();
        let thorough = cx.tier == Tier::Thorough;
        let mut counter = 0u32;
        let mut fresh = |cx: &mut Cx| {
            counter += 1;
            let stem = cx.tape.pick_str(&["obj", "zz_last", "AAA_first", "m.x[1]"]);
            format!("{stem}_{counter}")
        };
        // ---- initial file: mixed kinds in arbitrary order, optional comments / IF_DATA / MOD_COMMON
        let size = *cx.tape.pick(&[0u64, 1, 4, 12, 40, 120, 300]);
        let nkinds = 1 + cx.tape.draw(20) as usize;
        let mut kinds_here: Vec<&str> = Vec::new();
        for _ in 0..nkinds {
            kinds_here.push(*cx.tape.pick(&KINDS));
        }
        let nmodules = *cx.tape.pick(&[1usize, 1, 1, 2, 2, 3]);
        let mut text = String::from("ASAP2_VERSION 1 71\n/begin PROJECT proj \"\"\n");
        let mut sizes = Vec::new();
        for mi in 0..nmodules {
            text.push_str(&format!("  /begin MODULE mod{mi} \"\"\n"));
            let msize = if mi == 0 { size } else { *cx.tape.pick(&[0u64, 2, 6, 20]) };
            let mut elems: Vec<String> = Vec::new();
            for _ in 0..msize {
                cx.tape.begin_group();
                let kind = *cx.tape.pick(&kinds_here);
                let name = fresh(cx);
                elems.push(element_text(kind, &name));
                cx.tape.end_group();
            }
            // the single optional blocks, IF_DATA and USER_RIGHTS also have a position among the other elements
            let mut extras: Vec<String> = Vec::new();
            if cx.tape.chance(1, 3) {
                extras.push("/begin MOD_COMMON \"\" /end MOD_COMMON".to_string());
            }
            if cx.tape.chance(1, 4) {
                extras.push("/begin MOD_PAR \"\" /end MOD_PAR".to_string());
            }
            if cx.tape.chance(1, 3) {
                extras.push("/begin VARIANT_CODING /end VARIANT_CODING".to_string());
            }
            if cx.tape.chance(1, 5) {
                extras.push("/begin A2ML block \"IF_DATA\" taggedunion { \"X\" int; }; /end A2ML".to_string());
            }
            for _ in 0..cx.tape.draw(3) {
                let name = fresh(cx);
                extras.push(format!("/begin IF_DATA VENDOR_{name} 1 2 /begin BLK x /end BLK /end IF_DATA"));
            }
            for _ in 0..cx.tape.draw(3) {
                let name = fresh(cx);
                extras.push(format!("/begin USER_RIGHTS user_{name} /end USER_RIGHTS"));
            }
            for x in extras {
                // mostly at the top or at the end, where files usually have them, sometimes anywhere
                let at = match cx.tape.draw(4) {
                    0 => 0,
                    1 => elems.len(),
                    _ => cx.tape.draw(elems.len() as u64 + 1) as usize,
                };
                elems.insert(at, x);
                cx.probe("optional-block-or-if_data-among-the-elements");
            }
            sizes.push(elems.len());
            for e in elems {
                if cx.tape.chance(1, 10) {
                    text.push_str(if cx.tape.chance(1, 2) { "    /* section comment */\n" } else { "    // line comment\n" });
                }
                text.push_str("    ");
                text.push_str(&e);
                text.push_str(if cx.tape.chance(1, 8) { "\n\n" } else { "\n" });
            }
            text.push_str("  /end MODULE\n");
        }
        text.push_str("/end PROJECT\n");
        cx.event_lazy(&format!("initial file: {nmodules} modules with {sizes:?} elements of {} kinds", kinds_here.len()), || crate::runner::clip(&text, 1500));
        if nmodules > 1 {
            cx.probe("file-with-several-modules");
        }
        let mut file = match sut::load_str(cx, "load", &text, None, true)? {
            Ok((f, _)) => f,
            Err(e) => {
                cx.vacuous = true;
                cx.event(&format!("initial file not accepted: {e}"));
                return Ok(());
            }
        };
        let first = sut::write_str(cx, "no-panic", &file)?;
        let scanned = scan_module_level(&first);
        if scanned.len() != nmodules {
            return Err(cx.fail("order", "module-lost", format!("the initial file has {nmodules} modules, the first output {}", scanned.len())));
        }
        let mut oms: Vec<OrderModel> = scanned.into_iter().map(|m| OrderModel { placed: m, pending: Vec::new() }).collect();
        for (mi, om) in oms.iter().enumerate() {
            if om.placed.len() != sizes[mi] {
                return Err(cx.fail("order", "element-lost", format!("module {mi} of the initial file has {} elements, the first output {}", sizes[mi], om.placed.len())));
            }
        }

        // ---- history
        let max_ops = if thorough { 400 } else { 60 };
        let nops = 1 + cx.tape.draw(max_ops) as usize;
        let mut consecutive_sorts = 0u32;
        let mut longest_sort_run = 0u32;
        let mut sort_run_left = 0u32;
        let mut merges = 0u32;
        let mut sorts_with_effect = 0u32;
        let mut step = 0usize;
        cx.tape.begin_group();
        while step < nops {
            step += 1;
            cx.tape.end_group();
            cx.tape.begin_group();
            let op = if sort_run_left > 0 {
                sort_run_left -= 1;
                2
            } else {
                match cx.tape.draw(10) {
                    0..=3 => 0, // push
                    4 => 1,     // merge
                    5 | 6 => {
                        // a run of consecutive sort_new_items calls, length 1..64 drawn on purpose
                        sort_run_left = match cx.tape.draw(4) {
                            0 => 0,
                            1 => cx.tape.draw(4) as u32,
                            2 => cx.tape.draw(24) as u32,
                            _ => cx.tape.draw(64) as u32,
                        };
                        2
                    }
                    7 | 8 => 3, // write
                    _ => 4,     // reload
                }
            };
            let desc: String;
            match op {
                0 => {
                    // mostly kinds that already exist in the file, sometimes any kind
                    let mut kind = if !kinds_here.is_empty() && cx.tape.chance(3, 4) { *cx.tape.pick(&kinds_here) } else { *cx.tape.pick(&KINDS) };
                    let mut name = fresh(cx);
                    match cx.tape.draw(16) {
                        0 => {
                            kind = "USER_RIGHTS";
                            name = format!("user_{name}");
                        }
                        1 => {
                            kind = "IF_DATA";
                            name = format!("VENDOR_{name}");
                        }
                        _ => {}
                    }
                    let mi = cx.tape.draw(nmodules as u64) as usize;
                    desc = format!("push new {kind} {name} into module {mi}");
                    guarded(cx, "no-panic", &desc, || push_new(&mut file.project.module[mi], kind, &name))?;
                    oms[mi].pending.push((kind.to_string(), name));
                    consecutive_sorts = 0;
                }
                1 => {
                    let n = 1 + cx.tape.draw(5);
                    let mut mtext = String::from("ASAP2_VERSION 1 71\n/begin PROJECT other \"\"\n/begin MODULE other_mod \"\"\n");
                    let mut added = Vec::new();
                    // what the first module looks like before the merge: elements that clash with an existing name are
                    // renamed or (if identical) dropped by merge_modules, so the arrivals are taken from the output
                    let before: BTreeSet<(String, String)> = scan_module_level(&sut::write_str(cx, "no-panic", &file)?).into_iter().next().unwrap_or_default().into_iter().collect();
                    let mut clash = false;
                    for _ in 0..n {
                        let kind = if !kinds_here.is_empty() && cx.tape.chance(3, 4) { *cx.tape.pick(&kinds_here) } else { *cx.tape.pick(&KINDS) };
                        let mut name = fresh(cx);
                        if cx.tape.chance(1, 5) {
                            // the name of an element that module 0 already has (same kind: identical content is dropped,
                            // other kind: no clash at all)
                            if let Some(e) = oms[0].placed.iter().chain(oms[0].pending.iter()).filter(|e| KINDS.contains(&e.0.as_str())).nth(cx.tape.draw(8) as usize) {
                                if !added.iter().any(|a: &(String, String)| a.1 == e.1) {
                                    name = e.1.clone();
                                    clash = true;
                                }
                            }
                        }
                        mtext.push_str(&element_text(kind, &name));
                        mtext.push('\n');
                        added.push((kind.to_string(), name));
                    }
                    if clash {
                        cx.probe("merge-with-a-name-that-exists-already");
                    }
                    // unnamed MODULE-level blocks can arrive by merge as well
                    if cx.tape.chance(1, 6) {
                        let nm = fresh(cx);
                        mtext.push_str(&format!("/begin USER_RIGHTS user_{nm} /end USER_RIGHTS\n"));
                        added.push(("USER_RIGHTS".to_string(), format!("user_{nm}")));
                    }
                    if cx.tape.chance(1, 6) {
                        let nm = fresh(cx);
                        mtext.push_str(&format!("/begin IF_DATA VENDOR_{nm} 1 2 /end IF_DATA\n"));
                        added.push(("IF_DATA".to_string(), format!("VENDOR_{nm}")));
                    }
                    mtext.push_str("/end MODULE\n/end PROJECT\n");
                    desc = format!("merge a module with {:?}", added.iter().map(|e| format!("{} {}", e.0, e.1)).collect::<Vec<_>>());
                    let mut other = match sut::load_str(cx, "load", &mtext, None, true)? {
                        Ok((f, _)) => f,
                        Err(e) => return Err(cx.fail("harness", "merge-module-rejected", format!("{e}"))),
                    };
                    guarded(cx, "no-panic", &desc, || file.merge_modules(&mut other))?;
                    let after: Vec<(String, String)> = scan_module_level(&sut::write_str(cx, "no-panic", &file)?).into_iter().next().unwrap_or_default();
                    let arrived: Vec<(String, String)> = after.into_iter().filter(|e| !before.contains(e)).collect();
                    if arrived.len() > added.len() {
                        return Err(cx.fail("order", "element-invented", format!("step {step}: merging {} elements added {} to the first module", added.len(), arrived.len())));
                    }
                    oms[0].pending.extend(arrived);
                    merges += 1;
                    consecutive_sorts = 0;
                }
                2 => {
                    consecutive_sorts += 1;
                    longest_sort_run = longest_sort_run.max(consecutive_sorts);
                    if consecutive_sorts >= 16 {
                        cx.probe(">=16-consecutive-sort_new_items");
                    }
                    // known-finding trigger: position ids double on every call
                    let elems = oms.iter().map(|om| om.placed.len() + om.pending.len()).max().unwrap_or(1).max(1) as f64;
                    if f64::from(consecutive_sorts) + elems.log2() >= 30.0 {
                        cx.trigger("position-ids-doubled->=2^30");
                    }
                    desc = format!("sort_new_items() [consecutive #{consecutive_sorts}]");
                    guarded(cx, "no-panic", &desc, || file.sort_new_items())?;
                }
                3 => {
                    desc = "write(/work/out.a2l)".to_string();
                    fs.begin_op(BTreeMap::new(), false);
                    match sut::write_path(cx, "no-panic", &file, "/work/out.a2l", None)? {
                        Ok(()) => {}
                        Err(e) => return Err(cx.fail("order", "write-failed", format!("{e}"))),
                    }
                }
                _ => {
                    desc = "write + reload".to_string();
                    let w = sut::write_str(cx, "no-panic", &file)?;
                    match sut::load_str(cx, "load", &w, None, true)? {
                        Ok((f, _)) => file = f,
                        Err(e) => return Err(cx.fail("order", "reload-failed", format!("step {step}: {e}"))),
                    }
                    consecutive_sorts = 0;
                }
            }
            // ---- observe after every step
            let out_text = sut::write_str(cx, "no-panic", &file)?;
            let outs = scan_module_level(&out_text);
            cx.event(&format!("{step}: {desc}"));
            if outs.len() != nmodules {
                return Err(cx.fail("order", "module-lost", format!("step {step} ({desc}): output has {} modules instead of {nmodules}", outs.len())));
            }
            for (mi, out) in outs.iter().enumerate() {
                let om = &mut oms[mi];
                let pos = match check_order(cx, om, out, step, &desc) {
                    Ok(p) => p,
                    Err(v) => {
                        cx.event_lazy("output", || crate::runner::clip(&out_text, 2500));
                        return Err(v);
                    }
                };
                match op {
                    2 => {
                        let placed_kinds: BTreeSet<&str> = om.placed.iter().map(|e| e.0.as_str()).collect();
                        let mut still_pending = Vec::new();
                        let mut newly_placed = Vec::new();
                        for p in &om.pending {
                            if placed_kinds.contains(p.0.as_str()) {
                                // directly after the last placed element of its kind: after it, and before every placed element that followed it
                                let last_idx = om.placed.iter().rposition(|e| e.0 == p.0).unwrap();
                                let last = &om.placed[last_idx];
                                if pos[p] < pos[last] {
                                    cx.event_lazy("output", || crate::runner::clip(&out_text, 2500));
                                    return Err(cx.fail("order", "new-element-before-last-of-its-kind", format!("step {step}, module {mi}: {} {} was inserted before {} {}, the last placed element of its kind", p.0, p.1, last.0, last.1)));
                                }
                                if let Some(next) = om.placed.get(last_idx + 1) {
                                    if pos[p] > pos[next] {
                                        cx.event_lazy("output", || crate::runner::clip(&out_text, 2500));
                                        return Err(cx.fail("order", "new-element-not-directly-after-its-kind", format!("step {step}, module {mi}: {} {} was inserted after {} {}, which follows the last placed element of its kind ({} {})", p.0, p.1, next.0, next.1, last.0, last.1)));
                                    }
                                }
                                newly_placed.push(p.clone());
                            } else {
                                // no placed element of that kind: at the end, after all placed elements
                                if let Some(maxp) = om.placed.iter().map(|e| pos[e]).max() {
                                    if pos[p] < maxp {
                                        cx.event_lazy("output", || crate::runner::clip(&out_text, 2500));
                                        return Err(cx.fail("order", "kindless-new-element-not-at-end", format!("step {step}, module {mi}: {} {} has no placed element of its kind and must stay at the end", p.0, p.1)));
                                    }
                                }
                                still_pending.push(p.clone());
                            }
                        }
                        if !newly_placed.is_empty() {
                            sorts_with_effect += 1;
                            cx.nontrivial = true;
                            if mi > 0 {
                                cx.probe("new-elements-placed-in-a-later-module");
                            }
                        }
                        om.pending = still_pending;
                        // the new placed order is the output order of all placed elements
                        let mut all: Vec<(String, String)> = om.placed.iter().cloned().chain(newly_placed).collect();
                        all.sort_by_key(|e| pos[e]);
                        om.placed = all;
                    }
                    4 => {
                        // after a reload every element has a position in the file
                        let mut all: Vec<(String, String)> = om.placed.iter().cloned().chain(om.pending.iter().cloned()).collect();
                        all.sort_by_key(|e| pos[e]);
                        om.placed = all;
                        om.pending.clear();
                    }
                    _ => {}
                }
            }
        }
        let mut profile: BTreeMap<&str, u32> = BTreeMap::new();
        for p in oms.iter().flat_map(|om| om.pending.iter()) {
            *profile.entry(p.0.as_str()).or_insert(0) += 1;
        }
        cx.sig(&format!(
            "mods{nmodules}|size{}|kinds{}|sortrun{}|effect{}|merge{}|pendingkinds{}",
            match size {
                0 => 0,
                1..=4 => 1,
                5..=40 => 2,
                _ => 3,
            },
            kinds_here.len().min(20) / 4,
            match longest_sort_run {
                0 => 0,
                1 => 1,
                2..=7 => 2,
                8..=15 => 3,
                16..=31 => 4,
                _ => 5,
            },
            sorts_with_effect.min(4),
            merges.min(2),
            profile.len().min(3)
        ));
        SimFs::uninstall();
        Ok(())
    }
}
