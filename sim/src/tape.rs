//! One integer decides everything: the choice tape.
//!
//! Every decision of a run is made through `Tape::draw(n)`. In search mode the value comes from
//! a SplitMix64 generator seeded with the run seed; in replay mode it comes from a recorded tape.
//! The values actually used are recorded, so a run is a pure function of its recorded tape.
//!
//! The tape is a tree: `begin_group()` / `end_group()` bracket the draws that belong to one generated thing
//! (one element of a document, one operation of a history, one include file ...). In replay mode the draws
//! inside a group come from the corresponding recorded group only, so the shrinker can delete or empty a whole
//! group without shifting the values that its siblings will see.

use serde_json::Value;

#[derive(Clone)]
pub struct SplitMix64(pub u64);

impl SplitMix64 {
    pub fn next(&mut self) -> u64 {
        self.0 = self.0.wrapping_add(0x9E37_79B9_7F4A_7C15);
        let mut z = self.0;
        z = (z ^ (z >> 30)).wrapping_mul(0xBF58_476D_1CE4_E5B9);
        z = (z ^ (z >> 27)).wrapping_mul(0x94D0_49BB_1331_11EB);
        z ^ (z >> 31)
    }
}

pub fn mix(a: u64, b: u64) -> u64 {
    let mut s = SplitMix64(a ^ b.rotate_left(32) ^ 0x5851_F42D_4C95_7F2D);
    s.next();
    s.0 = s.0.wrapping_add(b);
    s.next()
}

pub fn hash_str(s: &str) -> u64 {
    // FNV-1a, fixed
    let mut h: u64 = 0xcbf2_9ce4_8422_2325;
    for b in s.as_bytes() {
        h ^= u64::from(*b);
        h = h.wrapping_mul(0x0000_0100_0000_01B3);
    }
    h
}

pub fn hash_bytes(h0: u64, s: &[u8]) -> u64 {
    let mut h: u64 = h0 ^ 0xcbf2_9ce4_8422_2325;
    for b in s {
        h ^= u64::from(*b);
        h = h.wrapping_mul(0x0000_0100_0000_01B3);
    }
    h
}

#[derive(Clone, Debug, PartialEq, Eq)]
pub enum TNode {
    V(u64),
    G(Vec<TNode>),
}

pub fn count_values(nodes: &[TNode]) -> usize {
    nodes
        .iter()
        .map(|n| match n {
            TNode::V(_) => 1,
            TNode::G(c) => count_values(c),
        })
        .sum()
}

pub fn count_groups(nodes: &[TNode]) -> usize {
    nodes
        .iter()
        .map(|n| match n {
            TNode::V(_) => 0,
            TNode::G(c) => 1 + count_groups(c),
        })
        .sum()
}

pub fn to_json(nodes: &[TNode]) -> Value {
    Value::Array(
        nodes
            .iter()
            .map(|n| match n {
                TNode::V(v) => Value::from(*v),
                TNode::G(c) => to_json(c),
            })
            .collect(),
    )
}

pub fn from_json(v: &Value) -> Vec<TNode> {
    match v.as_array() {
        Some(a) => a
            .iter()
            .map(|x| if x.is_array() { TNode::G(from_json(x)) } else { TNode::V(x.as_u64().unwrap_or(0)) })
            .collect(),
        None => Vec::new(),
    }
}

pub struct Tape {
    rng: SplitMix64,
    /// replay mode: stack of (nodes of the level, position)
    replay: Option<Vec<(Vec<TNode>, usize)>>,
    /// recording (both modes): stack of open groups, the first entry is the root
    rec_stack: Vec<Vec<TNode>>,
    count: usize,
    /// hard cap on the number of draws of one run, a generator bug must not hang the harness
    pub limit: usize,
}

impl Tape {
    pub fn from_seed(seed: u64) -> Tape {
        Tape { rng: SplitMix64(seed), replay: None, rec_stack: vec![Vec::new()], count: 0, limit: 4_000_000 }
    }

    pub fn from_replay(nodes: Vec<TNode>) -> Tape {
        Tape { rng: SplitMix64(0), replay: Some(vec![(nodes, 0)]), rec_stack: vec![Vec::new()], count: 0, limit: 4_000_000 }
    }

    /// the recorded tape (closes groups that are still open, e.g. after a panic)
    pub fn take_record(&mut self) -> Vec<TNode> {
        while self.rec_stack.len() > 1 {
            let g = self.rec_stack.pop().unwrap();
            self.rec_stack.last_mut().unwrap().push(TNode::G(g));
        }
        std::mem::take(&mut self.rec_stack[0])
    }

    pub fn begin_group(&mut self) {
        self.rec_stack.push(Vec::new());
        if let Some(stack) = &mut self.replay {
            let (nodes, pos) = stack.last_mut().unwrap();
            // the next recorded group of this level, if there is one; values in front of it belong to draws that
            // are no longer made and are skipped
            let mut children = Vec::new();
            let mut p = *pos;
            while p < nodes.len() {
                if let TNode::G(c) = &mut nodes[p] {
                    children = std::mem::take(c);
                    p += 1;
                    *pos = p;
                    break;
                }
                p += 1;
            }
            stack.push((children, 0));
        }
    }

    pub fn end_group(&mut self) {
        if self.rec_stack.len() > 1 {
            let g = self.rec_stack.pop().unwrap();
            self.rec_stack.last_mut().unwrap().push(TNode::G(g));
        }
        if let Some(stack) = &mut self.replay {
            if stack.len() > 1 {
                stack.pop();
            }
        }
    }

    fn next_raw(&mut self) -> u64 {
        match &mut self.replay {
            Some(stack) => {
                let (nodes, pos) = stack.last_mut().unwrap();
                // the next recorded value of this level; groups standing in front of it belong to things that are no
                // longer generated (a loop that now runs fewer times) and are skipped, so that the values behind them
                // keep their meaning
                let mut p = *pos;
                while let Some(TNode::G(_)) = nodes.get(p) {
                    p += 1;
                }
                match nodes.get(p) {
                    Some(TNode::V(v)) => {
                        *pos = p + 1;
                        *v
                    }
                    _ => 0,
                }
            }
            None => self.rng.next(),
        }
    }

    /// a value in 0..n (n >= 1). n == 1 consumes nothing.
    pub fn draw(&mut self, n: u64) -> u64 {
        if n <= 1 {
            return 0;
        }
        if self.count >= self.limit {
            return 0;
        }
        self.count += 1;
        let v = self.next_raw() % n;
        self.rec_stack.last_mut().unwrap().push(TNode::V(v));
        v
    }

    /// raw 64 bit value (used for sub-seeds and hash keys)
    pub fn draw_u64(&mut self) -> u64 {
        if self.count >= self.limit {
            return 0;
        }
        self.count += 1;
        let v = self.next_raw();
        self.rec_stack.last_mut().unwrap().push(TNode::V(v));
        v
    }

    pub fn chance(&mut self, num: u64, den: u64) -> bool {
        // "true" is the larger value so that shrinking towards zero turns features off
        self.draw(den) >= den - num
    }

    pub fn range(&mut self, lo: u64, hi: u64) -> u64 {
        lo + self.draw(hi - lo + 1)
    }

    pub fn pick<'a, T>(&mut self, items: &'a [T]) -> &'a T {
        &items[self.draw(items.len() as u64) as usize]
    }

    pub fn pick_str<'a>(&mut self, items: &[&'a str]) -> &'a str {
        items[self.draw(items.len() as u64) as usize]
    }
}
