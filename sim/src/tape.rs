//! One integer decides everything: the choice tape.
//!
//! Every decision of a run is made through `Tape::draw(n)`. In search mode the value comes from
//! a SplitMix64 generator seeded with the run seed; in replay mode it comes from a recorded tape.
//! The values actually used are recorded, so a run is a pure function of its recorded tape.

#[derive(Clone)]
pub struct SplitMix64(pub u64);

impl SplitMix64 {
    pub fn next(&mut self) -> u64 {
        self.0 = self.0.wrapping_add(0x9E37_79B9_7F4A_7C15);
        let mut z = self.0;
        z = (z ^ (z >> 30)).wrapping_mul(0xBF58_476D_1CE4_E5B9);
        z = (z ^ (z >> 27)).wrapping_mul(0x94D0_49BB_1331_11EB);
        z ^ (z >> 31)
    }
}

pub fn mix(a: u64, b: u64) -> u64 {
    let mut s = SplitMix64(a ^ b.rotate_left(32) ^ 0x5851_F42D_4C95_7F2D);
    s.next();
    s.0 = s.0.wrapping_add(b);
    s.next()
}

pub fn hash_str(s: &str) -> u64 {
    // FNV-1a, fixed
    let mut h: u64 = 0xcbf2_9ce4_8422_2325;
    for b in s.as_bytes() {
        h ^= u64::from(*b);
        h = h.wrapping_mul(0x0000_0100_0000_01B3);
    }
    h
}

pub fn hash_bytes(h0: u64, s: &[u8]) -> u64 {
    let mut h: u64 = h0 ^ 0xcbf2_9ce4_8422_2325;
    for b in s {
        h ^= u64::from(*b);
        h = h.wrapping_mul(0x0000_0100_0000_01B3);
    }
    h
}

pub struct Tape {
    rng: SplitMix64,
    replay: Option<Vec<u64>>,
    pos: usize,
    pub rec: Vec<u64>,
    /// hard cap on the number of draws of one run, a generator bug must not hang the harness
    pub limit: usize,
}

impl Tape {
    pub fn from_seed(seed: u64) -> Tape {
        Tape {
            rng: SplitMix64(seed),
            replay: None,
            pos: 0,
            rec: Vec::new(),
            limit: 4_000_000,
        }
    }

    pub fn from_replay(values: Vec<u64>) -> Tape {
        Tape {
            rng: SplitMix64(0),
            replay: Some(values),
            pos: 0,
            rec: Vec::new(),
            limit: 4_000_000,
        }
    }

    /// a value in 0..n (n >= 1). n == 1 consumes nothing.
    pub fn draw(&mut self, n: u64) -> u64 {
        if n <= 1 {
            return 0;
        }
        if self.rec.len() >= self.limit {
            return 0;
        }
        let v = match &self.replay {
            Some(values) => {
                let v = values.get(self.pos).copied().unwrap_or(0);
                self.pos += 1;
                v % n
            }
            None => self.rng.next() % n,
        };
        self.rec.push(v);
        v
    }

    /// raw 64 bit value (used for sub-seeds and hash keys)
    pub fn draw_u64(&mut self) -> u64 {
        if self.rec.len() >= self.limit {
            return 0;
        }
        let v = match &self.replay {
            Some(values) => {
                let v = values.get(self.pos).copied().unwrap_or(0);
                self.pos += 1;
                v
            }
            None => self.rng.next(),
        };
        self.rec.push(v);
        v
    }

    pub fn chance(&mut self, num: u64, den: u64) -> bool {
        // "true" is the larger value so that shrinking towards zero turns features off
        self.draw(den) >= den - num
    }

    pub fn range(&mut self, lo: u64, hi: u64) -> u64 {
        lo + self.draw(hi - lo + 1)
    }

    pub fn pick<'a, T>(&mut self, items: &'a [T]) -> &'a T {
        &items[self.draw(items.len() as u64) as usize]
    }

    pub fn pick_str<'a>(&mut self, items: &[&'a str]) -> &'a str {
        items[self.draw(items.len() as u64) as usize]
    }

    pub fn exhausted_replay(&self) -> bool {
        match &self.replay {
            Some(v) => self.pos > v.len(),
            None => false,
        }
    }
}
