//! In-memory file system behind the cfg(a2lfile_verif) seam, with a fault plan and a call trace.

use crate::tape::SplitMix64;
use a2lfile::verif_hooks::Vfs;
use std::cell::RefCell;
use std::collections::{BTreeMap, BTreeSet};
use std::io;
use std::path::Path;
use std::rc::Rc;

pub const ENOENT: i32 = 2;
pub const EINTR: i32 = 4;
pub const EIO: i32 = 5;
pub const EACCES: i32 = 13;
pub const EISDIR: i32 = 21;
pub const EMFILE: i32 = 24;
pub const ENOSPC: i32 = 28;

#[derive(Clone, Copy, Debug, PartialEq, Eq, PartialOrd, Ord)]
pub enum CallKind {
    Open,
    Meta,
    Read,
    Exists,
    Write,
}

#[derive(Clone, Debug, PartialEq, Eq)]
pub enum Fault {
    /// open fails with the given errno
    OpenErr(i32),
    /// fstat fails
    MetaErr,
    /// fstat reports a wrong size: 0, len/2, len+delta
    MetaSize(u8),
    /// read returns only n bytes (n >= 1) although more were requested and available
    ReadShort(usize),
    /// read fails with EINTR once (must be retried)
    ReadEintr,
    /// read fails with EIO
    ReadEio,
    /// stat says "does not exist" although the file is there
    ExistsFalse,
    /// write fails before any byte is stored (errno)
    WriteErr(i32),
    /// the file is truncated, k bytes are stored, then the write fails with ENOSPC
    WriteTorn(usize),
}

impl Fault {
    pub fn name(&self) -> &'static str {
        match self {
            Fault::OpenErr(ENOENT) => "open:ENOENT",
            Fault::OpenErr(EACCES) => "open:EACCES",
            Fault::OpenErr(EIO) => "open:EIO",
            Fault::OpenErr(EMFILE) => "open:EMFILE",
            Fault::OpenErr(_) => "open:other",
            Fault::MetaErr => "meta:err",
            Fault::MetaSize(0..=3) => "meta:size-lie",
            Fault::MetaSize(_) => "meta:size-lie-huge",
            Fault::ReadShort(_) => "read:short",
            Fault::ReadEintr => "read:EINTR",
            Fault::ReadEio => "read:EIO",
            Fault::ExistsFalse => "exists:false-neg",
            Fault::WriteErr(EACCES) => "write:EACCES",
            Fault::WriteErr(_) => "write:ENOSPC@0",
            Fault::WriteTorn(_) => "write:torn",
        }
    }

    pub fn applies_to(&self, kind: CallKind) -> bool {
        matches!(
            (self, kind),
            (Fault::OpenErr(_), CallKind::Open)
                | (Fault::MetaErr | Fault::MetaSize(_), CallKind::Meta)
                | (Fault::ReadShort(_) | Fault::ReadEintr | Fault::ReadEio, CallKind::Read)
                | (Fault::ExistsFalse, CallKind::Exists)
                | (Fault::WriteErr(_) | Fault::WriteTorn(_), CallKind::Write)
        )
    }

    /// benign faults must not change any result
    pub fn is_benign(&self) -> bool {
        matches!(self, Fault::MetaSize(_) | Fault::ReadShort(_) | Fault::ReadEintr)
    }
}

#[derive(Clone, Copy, Debug, PartialEq, Eq)]
pub enum Chunking {
    /// deliver as much as requested
    Whole,
    /// one byte per read
    OneByte,
    /// random 1..=max bytes per read
    Random(usize),
    /// fixed size
    Fixed(usize),
}

#[derive(Clone, Debug)]
pub struct Call {
    pub kind: CallKind,
    pub path: String,
    pub ok: bool,
    pub fault: Option<&'static str>,
}

struct Handle {
    path: String,
    data: Option<Vec<u8>>, // None: a directory
    pos: usize,
}

pub struct FsState {
    pub files: BTreeMap<String, Vec<u8>>,
    pub dirs: BTreeSet<String>,
    pub cwd: String,
    handles: BTreeMap<u64, Handle>,
    next_handle: u64,
    pub calls: Vec<Call>,
    pub ncalls: usize,
    pub record_calls: bool,
    pub plan: BTreeMap<usize, Fault>,
    pub fired: Vec<(usize, Fault)>,
    pub chunking: Chunking,
    chunk_rng: SplitMix64,
    chunk_seed: u64,
    /// additional random EINTR / short read injection rate (per 1024 read calls), independent of the plan
    pub open_counts: BTreeMap<String, u32>,
    pub cycle_guard_hit: bool,
    pub cycle_guard_limit: u32,
    pub bytes_opened: u64,
}

pub struct SimFs {
    pub st: RefCell<FsState>,
}

pub fn normalize(cwd: &str, path: &str) -> String {
    let full = if path.starts_with('/') { path.to_string() } else { format!("{cwd}/{path}") };
    let mut parts: Vec<&str> = Vec::new();
    for comp in full.split('/') {
        match comp {
            "" | "." => {}
            ".." => {
                parts.pop();
            }
            c => parts.push(c),
        }
    }
    format!("/{}", parts.join("/"))
}

fn parent_of(path: &str) -> String {
    match path.rfind('/') {
        Some(0) | None => "/".to_string(),
        Some(i) => path[..i].to_string(),
    }
}

impl SimFs {
    pub fn new(cwd: &str, chunk_seed: u64) -> Rc<SimFs> {
        let mut dirs = BTreeSet::new();
        dirs.insert("/".to_string());
        let fs = SimFs {
            st: RefCell::new(FsState {
                files: BTreeMap::new(),
                dirs,
                cwd: "/".to_string(),
                handles: BTreeMap::new(),
                next_handle: 1,
                calls: Vec::new(),
                ncalls: 0,
                record_calls: false,
                plan: BTreeMap::new(),
                fired: Vec::new(),
                chunking: Chunking::Whole,
                chunk_rng: SplitMix64(chunk_seed),
                chunk_seed,
                open_counts: BTreeMap::new(),
                cycle_guard_hit: false,
                cycle_guard_limit: 48,
                bytes_opened: 0,
            }),
        };
        fs.mkdir_p(cwd);
        fs.st.borrow_mut().cwd = normalize("/", cwd);
        Rc::new(fs)
    }

    pub fn install(self: &Rc<Self>) {
        let as_dyn: Rc<dyn Vfs> = self.clone();
        a2lfile::verif_hooks::install_vfs(Some(as_dyn));
    }

    pub fn uninstall() {
        a2lfile::verif_hooks::install_vfs(None);
    }

    pub fn mkdir_p(&self, path: &str) {
        let mut st = self.st.borrow_mut();
        let p = normalize(&st.cwd, path);
        let mut cur = String::new();
        for comp in p.split('/').filter(|c| !c.is_empty()) {
            cur.push('/');
            cur.push_str(comp);
            st.dirs.insert(cur.clone());
        }
    }

    /// workload-side write: creates parent directories, no fault, not traced
    pub fn put(&self, path: &str, data: &[u8]) {
        let p = normalize(&self.st.borrow().cwd, path);
        self.mkdir_p(&parent_of(&p));
        self.st.borrow_mut().files.insert(p, data.to_vec());
    }

    pub fn get(&self, path: &str) -> Option<Vec<u8>> {
        let st = self.st.borrow();
        st.files.get(&normalize(&st.cwd, path)).cloned()
    }

    pub fn remove(&self, path: &str) {
        let mut st = self.st.borrow_mut();
        let p = normalize(&st.cwd, path);
        st.files.remove(&p);
    }

    /// start of one library operation: resets the trace, the plan position and the cycle guard
    pub fn begin_op(&self, plan: BTreeMap<usize, Fault>, record_calls: bool) {
        let mut st = self.st.borrow_mut();
        st.calls.clear();
        st.ncalls = 0;
        st.record_calls = record_calls;
        st.plan = plan;
        st.fired.clear();
        st.open_counts.clear();
        st.cycle_guard_hit = false;
        st.bytes_opened = 0;
        // every operation sees the same chunk-size sequence, so that call indices of a recorded trace stay valid
        st.chunk_rng = SplitMix64(st.chunk_seed);
    }

    pub fn set_chunking(&self, c: Chunking) {
        self.st.borrow_mut().chunking = c;
    }

    pub fn fired(&self) -> Vec<(usize, Fault)> {
        self.st.borrow().fired.clone()
    }

    pub fn calls(&self) -> Vec<Call> {
        self.st.borrow().calls.clone()
    }

    /// change the current working directory of the simulated process
    pub fn set_cwd(&self, cwd: &str) {
        self.mkdir_p(cwd);
        self.st.borrow_mut().cwd = normalize("/", cwd);
    }

    /// scenarios in which a file is legitimately opened very often switch the guard off (the fuel counter is the
    /// bound there)
    pub fn set_cycle_guard_limit(&self, limit: u32) {
        self.st.borrow_mut().cycle_guard_limit = limit;
    }

    pub fn cycle_guard_hit(&self) -> bool {
        self.st.borrow().cycle_guard_hit
    }

    pub fn snapshot_files(&self) -> BTreeMap<String, Vec<u8>> {
        self.st.borrow().files.clone()
    }
}

impl FsState {
    fn begin_call(&mut self, kind: CallKind, path: &str) -> (usize, Option<Fault>) {
        let idx = self.ncalls;
        self.ncalls += 1;
        if self.record_calls {
            self.calls.push(Call { kind, path: path.to_string(), ok: true, fault: None });
        }
        let fault = match self.plan.get(&idx) {
            Some(f) if f.applies_to(kind) => Some(f.clone()),
            _ => None,
        };
        if let Some(f) = &fault {
            self.fired.push((idx, f.clone()));
            if self.record_calls {
                if let Some(c) = self.calls.last_mut() {
                    c.fault = Some(f.name());
                }
            }
        }
        (idx, fault)
    }

    fn mark_failed(&mut self) {
        if self.record_calls {
            if let Some(c) = self.calls.last_mut() {
                c.ok = false;
            }
        }
    }
}

fn os_err(code: i32) -> io::Error {
    io::Error::from_raw_os_error(code)
}

impl Vfs for SimFs {
    fn open(&self, path: &Path) -> io::Result<u64> {
        let mut st = self.st.borrow_mut();
        let p = normalize(&st.cwd, &path.to_string_lossy());
        let (_, fault) = st.begin_call(CallKind::Open, &p);
        if let Some(Fault::OpenErr(code)) = fault {
            st.mark_failed();
            return Err(os_err(code));
        }
        let cnt = st.open_counts.entry(p.clone()).or_insert(0);
        *cnt += 1;
        if *cnt > st.cycle_guard_limit {
            st.cycle_guard_hit = true;
            st.mark_failed();
            return Err(io::Error::other("simulator cycle guard: the same file was opened too often during one load"));
        }
        let data = if let Some(d) = st.files.get(&p) {
            Some(d.clone())
        } else if st.dirs.contains(&p) {
            None
        } else {
            st.mark_failed();
            return Err(os_err(ENOENT));
        };
        st.bytes_opened += data.as_ref().map_or(0, |d| d.len() as u64);
        let h = st.next_handle;
        st.next_handle += 1;
        st.handles.insert(h, Handle { path: p, data, pos: 0 });
        Ok(h)
    }

    fn metadata_len(&self, handle: u64) -> io::Result<u64> {
        let mut st = self.st.borrow_mut();
        let (path, len) = match st.handles.get(&handle) {
            Some(h) => (h.path.clone(), h.data.as_ref().map_or(4096, |d| d.len() as u64)),
            None => return Err(os_err(9)),
        };
        let (_, fault) = st.begin_call(CallKind::Meta, &path);
        match fault {
            Some(Fault::MetaErr) => {
                st.mark_failed();
                Err(os_err(EIO))
            }
            Some(Fault::MetaSize(0)) => Ok(0),
            Some(Fault::MetaSize(1)) => Ok(len / 2),
            Some(Fault::MetaSize(2)) => Ok(len + 1),
            Some(Fault::MetaSize(3)) => Ok(len + 5000),
            // an absurd size (special file systems, sparse files): must not be trusted blindly either
            Some(Fault::MetaSize(_)) => Ok(u64::MAX),
            _ => Ok(len),
        }
    }

    fn read(&self, handle: u64, buf: &mut [u8]) -> io::Result<usize> {
        let mut st = self.st.borrow_mut();
        let path = match st.handles.get(&handle) {
            Some(h) => h.path.clone(),
            None => return Err(os_err(9)),
        };
        let (_, fault) = st.begin_call(CallKind::Read, &path);
        match fault {
            Some(Fault::ReadEintr) => {
                st.mark_failed();
                return Err(os_err(EINTR));
            }
            Some(Fault::ReadEio) => {
                st.mark_failed();
                return Err(os_err(EIO));
            }
            _ => {}
        }
        let chunking = st.chunking;
        let rnd = st.chunk_rng.next();
        let h = st.handles.get_mut(&handle).unwrap();
        let Some(data) = &h.data else {
            return Err(os_err(EISDIR));
        };
        let avail = data.len() - h.pos;
        let mut n = avail.min(buf.len());
        let limit = match chunking {
            Chunking::Whole => usize::MAX,
            Chunking::OneByte => 1,
            Chunking::Random(max) => 1 + (rnd as usize) % max,
            Chunking::Fixed(k) => k.max(1),
        };
        n = n.min(limit);
        if let Some(Fault::ReadShort(k)) = fault {
            n = n.min(k.max(1));
        }
        buf[..n].copy_from_slice(&data[h.pos..h.pos + n]);
        h.pos += n;
        Ok(n)
    }

    fn close(&self, handle: u64) {
        self.st.borrow_mut().handles.remove(&handle);
    }

    fn exists(&self, path: &Path) -> bool {
        let mut st = self.st.borrow_mut();
        let p = normalize(&st.cwd, &path.to_string_lossy());
        let (_, fault) = st.begin_call(CallKind::Exists, &p);
        if let Some(Fault::ExistsFalse) = fault {
            st.mark_failed();
            return false;
        }
        let r = st.files.contains_key(&p) || st.dirs.contains(&p);
        if !r {
            st.mark_failed();
        }
        r
    }

    fn write(&self, path: &Path, data: &[u8]) -> io::Result<()> {
        let mut st = self.st.borrow_mut();
        let p = normalize(&st.cwd, &path.to_string_lossy());
        let (_, fault) = st.begin_call(CallKind::Write, &p);
        if let Some(Fault::WriteErr(code)) = fault {
            st.mark_failed();
            return Err(os_err(code));
        }
        if st.dirs.contains(&p) {
            st.mark_failed();
            return Err(os_err(EISDIR));
        }
        if !st.dirs.contains(&parent_of(&p)) {
            st.mark_failed();
            return Err(os_err(ENOENT));
        }
        if let Some(Fault::WriteTorn(k)) = fault {
            let k = k.min(data.len());
            st.files.insert(p, data[..k].to_vec());
            st.mark_failed();
            return Err(os_err(ENOSPC));
        }
        st.files.insert(p, data.to_vec());
        Ok(())
    }
}
