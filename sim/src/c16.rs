//! C16: /include is transparent for loading and preserved by writing. Include trees live in the simulated
//! file system; every file-system call of a load is enumerated with every applicable fault.

use crate::gen::{feats_string, render_file, DocGen, GenOpts, IncRef, Item, LayoutOpts, RDirective, RawInc, RenderedFile};
use crate::runner::{guarded, Cx, Scenario, Tier, Violation};
use crate::sut;
use crate::vfs::{Call, CallKind, Chunking, Fault, SimFs, EACCES, EIO, EMFILE, ENOENT};
use a2lfile::{A2lFile, A2lObject};
use std::collections::BTreeMap;
use std::rc::Rc;

pub struct C16Includes;

pub struct SplitState {
    pub counter: u32,
    pub max_files: u32,
    pub made: u32,
    pub max_depth_reached: u32,
    pub decoys: Vec<(String, String)>, // (cwd-relative path, content)
    pub syntax: String,
}

fn dir_of(path: &str) -> String {
    match path.rfind('/') {
        Some(0) | None => "/".to_string(),
        Some(i) => path[..i].to_string(),
    }
}

/// index of the first item of the trailing run of nodes / includes (split points are only between complete tagged items)
fn first_node_idx(list: &[Item]) -> usize {
    let mut idx = list.len();
    while idx > 0 && matches!(list[idx - 1], Item::Node(_) | Item::Inc(_)) {
        idx -= 1;
    }
    idx
}

pub fn make_include(cx: &mut Cx, list: &mut Vec<Item>, first: usize, dir: &str, depth: u32, st: &mut SplitState, in_ifdata: bool) {
    cx.tape.begin_group();
    make_include_inner(cx, list, first, dir, depth, st, in_ifdata);
    cx.tape.end_group();
}

fn make_include_inner(cx: &mut Cx, list: &mut Vec<Item>, first: usize, dir: &str, depth: u32, st: &mut SplitState, in_ifdata: bool) {
    let n = list.len() - first;
    // range [i, j) of the node run; empty ranges give empty include files
    let i = first + cx.tape.draw(n as u64 + 1) as usize;
    let maxlen = list.len() - i;
    let mut len = match cx.tape.draw(6) {
        0 => 0,
        1 => maxlen,
        _ => cx.tape.draw(maxlen as u64 + 1) as usize,
    };
    if in_ifdata {
        // inside IF_DATA consecutive blocks may belong to different (unbracketed) tagged structs of the A2ML
        // definition; "complete tagged items of one parent" is only guaranteed for a single block
        len = len.min(1);
    }
    let moved: Vec<Item> = list.drain(i..i + len).collect();
    st.counter += 1;
    st.made += 1;
    st.max_depth_reached = st.max_depth_reached.max(depth);
    let absolute = cx.tape.chance(1, 10);
    let backslash = cx.tape.chance(1, 3);
    // unquoted names: path characters only, not starting with a digit or a slash
    let quoted = absolute || cx.tape.chance(1, 2);
    // file and directory names: some start with n, r, t (which follow a back-slash separator), quoted names may contain
    // any character a file system allows
    let plain = cx.tape.chance(1, 2);
    let stem = if quoted && !plain {
        cx.probe("include-name-with-special-characters");
        cx.tape.pick_str(&["my-data", "new file ", "tab+", "gr\u{f6}\u{df}e_", "rom(1)_", "it's_", "a&b=", "~tmp"])
    } else {
        cx.tape.pick_str(&["inc", "Part_", "x.y", "module_data", "tables", "new_", "rom", "nested.v1.", "r", "t"])
    };
    let fname = format!("{stem}{}.{}", st.counter, cx.tape.pick_str(&["a2l", "inc", "A2L"]));
    // location: same directory, a sub-directory, or the parent directory
    // directives that move along keep their includer-relative names valid only if the new file lives in the same directory
    let has_inc = moved.iter().any(|i| matches!(i, Item::Inc(_)));
    let loc = if has_inc { cx.tape.draw(2) } else { cx.tape.draw(5) };
    let (file_dir, rel) = match loc {
        0 | 1 => (dir.to_string(), fname.clone()),
        2 | 3 => {
            let sub = if quoted && !plain {
                format!("{}{}", cx.tape.pick_str(&["new-dir", "t mp", "r\u{e9}sum\u{e9}", "n.d"]), st.counter)
            } else {
                format!("{}{}", cx.tape.pick_str(&["sub", "new", "tables", "rel", "n", "t"]), st.counter)
            };
            (format!("{dir}/{sub}"), format!("{sub}/{fname}"))
        }
        _ => {
            if dir.matches('/').count() >= 2 {
                (dir_of(dir), format!("../{fname}"))
            } else {
                (dir.to_string(), fname.clone())
            }
        }
    };
    let path = format!("{file_dir}/{fname}");
    let mut name = if absolute { path.clone() } else { rel.clone() };
    if backslash && !absolute {
        name = name.replace('/', "\\");
    }
    st.syntax.push_str(&format!("{}{}{},", if quoted { "q" } else { "u" }, if backslash && !absolute { "\\" } else { "/" }, if absolute { "abs" } else { "" }));
    if !absolute && cx.tape.chance(1, 4) {
        // a decoy with different content at the CWD-relative location: the includer-relative file must win
        st.decoys.push((rel.clone(), "/begin DECOY this file must never be read /end DECOY\n".to_string()));
    }
    if in_ifdata {
        cx.probe("include-inside-if_data");
    }
    let mut inc = IncRef { name, quoted, path, items: moved, in_ifdata };
    // nested includes inside the new file
    if depth < 3 && st.made < st.max_files {
        split_list(cx, &mut inc.items, 0, &file_dir, depth + 1, st, 6, in_ifdata);
    }
    list.insert(i, Item::Inc(Box::new(inc)));
}

pub fn split_list(cx: &mut Cx, list: &mut Vec<Item>, first: usize, dir: &str, depth: u32, st: &mut SplitState, chance16: u64, in_ifdata: bool) {
    cx.tape.begin_group();
    split_list_inner(cx, list, first, dir, depth, st, chance16, in_ifdata);
    cx.tape.end_group();
}

#[allow(clippy::too_many_arguments)]
fn split_list_inner(cx: &mut Cx, list: &mut Vec<Item>, first: usize, dir: &str, depth: u32, st: &mut SplitState, chance16: u64, in_ifdata: bool) {
    if st.made < st.max_files && cx.tape.chance(chance16, 16) {
        make_include(cx, list, first, dir, depth, st, in_ifdata);
        // two includes back to back, sometimes
        if st.made < st.max_files && cx.tape.chance(1, 6) {
            let f = first_node_idx(list).max(first);
            make_include(cx, list, f, dir, depth, st, in_ifdata);
        }
    }
    // descend into the remaining nodes of this file
    for it in list.iter_mut() {
        if st.made >= st.max_files {
            break;
        }
        if let Item::Node(n) = it {
            if n.tag == "A2ML" {
                continue;
            }
            let child_in_ifdata = in_ifdata || n.tag == "IF_DATA";
            let f = first_node_idx(&n.body);
            // inside IF_DATA only where blocks follow (an include between scalar values is not "at an element boundary")
            if f < n.body.len() || (!child_in_ifdata && cx.tape.chance(1, 12)) {
                let ch = if n.tag == "PROJECT" || n.tag == "MODULE" { 10 } else if child_in_ifdata { 5 } else { 2 };
                split_list(cx, &mut n.body, f, dir, depth, st, ch, child_in_ifdata);
            }
        }
    }
}

/// move a part of the A2ML text into an A2ML-level include file
pub fn split_a2ml(cx: &mut Cx, items: &mut [Item], dir: &str, st: &mut SplitState) -> bool {
    let dir = &dir.to_string();
    for it in items.iter_mut() {
        if let Item::Node(n) = it {
            if n.tag == "A2ML" {
                if let Some(Item::Raw(text)) = n.body.first() {
                    let text = text.clone();
                    // split at a declaration boundary: after a ';' that ends a line, or the whole text
                    let cut_points: Vec<usize> = text.match_indices(";\n").map(|(i, _)| i + 2).collect();
                    let (a, b) = if !cut_points.is_empty() && cx.tape.chance(2, 3) {
                        let c = *cx.tape.pick(&cut_points);
                        if cx.tape.chance(1, 2) {
                            (0, c)
                        } else {
                            (c, text.len())
                        }
                    } else {
                        (0, text.len())
                    };
                    if a >= b {
                        return false;
                    }
                    st.counter += 1;
                    let quoted = cx.tape.chance(2, 3);
                    let special = quoted && cx.tape.chance(1, 3);
                    let fname = if special {
                        cx.probe("a2ml-include-name-with-special-characters");
                        format!("{}{}.aml", cx.tape.pick_str(&["xcp-defs", "a2ml part ", "v1.0+", "n\u{e4}chste_"]), st.counter)
                    } else {
                        // (a name or directory that begins with "end" puts the characters "/end" into the A2ML text)
                        format!("{}{}.aml", cx.tape.pick_str(&["a2ml_part", "tables", "new_", "r", "endpoints", "end"]), st.counter)
                    };
                    let sub = cx.tape.chance(1, 2);
                    let subdir = if special { cx.tape.pick_str(&["aml", "new-aml", "t aml", "end of line"]) } else { cx.tape.pick_str(&["aml", "new", "tables", "r", "end", "endian"]) };
                    let (path, rel) = if sub { (format!("{dir}/{subdir}/{fname}"), format!("{subdir}/{fname}")) } else { (format!("{dir}/{fname}"), fname.clone()) };
                    let backslash = sub && cx.tape.chance(1, 3);
                    let name = if backslash { rel.replace('/', "\\") } else { rel };
                    // sometimes the included file ends in a line comment without a final line break and the including
                    // text goes on in the same line: the directive stands for the tokens of the file, so neither may
                    // swallow or fuse with what follows
                    let tight = cx.tape.chance(1, 4);
                    let (content, after) = if tight {
                        cx.probe("a2ml-include-file-ends-in-line-comment-without-line-break");
                        (format!("{} // end of the included part", text[a..b].trim_end()), format!(" {}", text[b..].trim_start()))
                    } else {
                        // an unquoted name ends at whitespace
                        (text[a..b].to_string(), format!("\n{}", &text[b..]))
                    };
                    let ri = RawInc { before: text[..a].to_string(), name, quoted, path, content, after };
                    n.body[0] = Item::RawInc(Box::new(ri));
                    return true;
                }
            } else if split_a2ml(cx, &mut n.body, dir, st) {
                return true;
            }
        } else if let Item::Inc(inc) = it {
            // an A2ML block that was moved into an include file: its A2ML-level include is relative to that file
            let inc_dir = dir_of(&inc.path);
            if split_a2ml(cx, &mut inc.items, &inc_dir, st) {
                cx.probe("a2ml-include-inside-an-included-file");
                return true;
            }
        }
    }
    false
}

/// tags of the blocks at the top level of a text, None if anything else than blocks and comments stands there
fn top_level_block_tags(text: &str) -> Option<Vec<String>> {
    let b = text.as_bytes();
    let n = b.len();
    let mut i = 0;
    let mut toks: Vec<&str> = Vec::new();
    while i < n {
        let c = b[i];
        if c.is_ascii_whitespace() {
            i += 1;
        } else if c == b'/' && i + 1 < n && b[i + 1] == b'/' {
            while i < n && b[i] != b'\n' {
                i += 1;
            }
        } else if c == b'/' && i + 1 < n && b[i + 1] == b'*' {
            i += 2;
            while i + 1 < n && !(b[i] == b'*' && b[i + 1] == b'/') {
                i += 1;
            }
            i += 2;
        } else if c == b'"' {
            let s = i;
            i += 1;
            while i < n {
                if b[i] == b'\\' {
                    i += 2;
                } else if b[i] == b'"' {
                    if i + 1 < n && b[i + 1] == b'"' {
                        i += 2;
                    } else {
                        i += 1;
                        break;
                    }
                } else {
                    i += 1;
                }
            }
            toks.push(&text[s..i.min(n)]);
        } else {
            let s = i;
            while i < n && !b[i].is_ascii_whitespace() && b[i] != b'"' {
                i += 1;
            }
            toks.push(&text[s..i]);
        }
    }
    let mut depth = 0i32;
    let mut tags = Vec::new();
    let mut k = 0;
    while k < toks.len() {
        match toks[k] {
            "/begin" => {
                if depth == 0 {
                    tags.push((*toks.get(k + 1)?).to_string());
                }
                depth += 1;
                k += 2;
            }
            "/end" => {
                depth -= 1;
                k += 2;
            }
            _ => {
                if depth == 0 {
                    return None;
                }
                k += 1;
            }
        }
    }
    if depth == 0 {
        Some(tags)
    } else {
        None
    }
}

/// the same file included twice in a row in one block: legal where the content consists of unnamed, repeatable
/// blocks (ANNOTATION). Returns true if a directive was duplicated.
fn duplicate_a_directive(cx: &mut Cx, f: &mut RenderedFile) -> bool {
    for di in 0..f.directives.len() {
        let d = &f.directives[di];
        if d.a2ml_level || !d.file.directives.is_empty() {
            continue;
        }
        let ok = top_level_block_tags(&d.file.text).is_some_and(|tags| !tags.is_empty() && tags.iter().all(|t| t == "ANNOTATION"));
        if !ok || !cx.tape.chance(1, 2) {
            continue;
        }
        let (start, end) = (d.start, d.end);
        let mut copy = d.clone();
        let insert = format!("\n{}", &f.text[start..end]);
        let shift = insert.len();
        f.text.insert_str(end, &insert);
        for o in &mut f.directives {
            if o.start >= end {
                o.start += shift;
                o.end += shift;
                o.line += 1;
            }
        }
        for sp in &mut f.spans {
            if sp.start >= end {
                sp.start += shift;
                sp.end += shift;
            }
        }
        copy.start = end + 1;
        copy.end = end + shift;
        copy.line += 1;
        f.directives.push(copy);
        return true;
    }
    for d in &mut f.directives {
        if !d.a2ml_level && duplicate_a_directive(cx, &mut d.file) {
            return true;
        }
    }
    false
}

pub fn install_tree(fs: &Rc<SimFs>, cx: &mut Cx, root: &RenderedFile) {
    for f in root.all_files() {
        // included A2L files are sometimes stored in another encoding than the main file
        let bytes = if f.path != root.path && cx.tape.chance(1, 8) && f.text.as_bytes().first().is_some_and(u8::is_ascii) {
            cx.probe("include-file-in-utf16");
            crate::c17::encode(&f.text, crate::c17::Enc::Utf16Le, true)
        } else {
            f.text.clone().into_bytes()
        };
        fs.put(&f.path, &bytes);
    }
}

pub fn total_bytes(fs: &Rc<SimFs>) -> usize {
    fs.snapshot_files().values().map(Vec::len).sum()
}

fn load_main(cx: &mut Cx, fs: &Rc<SimFs>, oracle: &str, path: &str, strict: bool, plan: BTreeMap<usize, Fault>, record: bool) -> Result<(sut::LoadResult, Vec<Call>, Vec<(usize, Fault)>, bool), Violation> {
    let total = total_bytes(fs);
    fs.begin_op(plan, record);
    let r = sut::load_path(cx, oracle, path, None, strict, total)?;
    Ok((r, fs.calls(), fs.fired(), fs.cycle_guard_hit()))
}

fn merged(cx: &Cx, f: &A2lFile) -> Result<A2lFile, Violation> {
    guarded(cx, "no-panic", "merge_includes", || {
        let mut m = f.clone();
        m.merge_includes();
        m
    })
}

impl Scenario for C16Includes {
    fn property(&self) -> &'static str {
        "C16"
    }
    fn name(&self) -> &'static str {
        "include_trees_with_fault_enumeration"
    }

    #[allow(clippy::too_many_lines)]
    fn run(&self, cx: &mut Cx) -> Result<(), Violation> {
        let fs = SimFs::new("/cwd", cx.tape.draw_u64());
        fs.install();
        fs.mkdir_p("/work");
        // ---- workload: a document split into a tree of files
        let mut opts = GenOpts::swarm(&mut cx.tape);
        opts.budget = opts.budget.clamp(12, 120);
        opts.float_overflow = false;
        let lo = LayoutOpts::swarm(&mut cx.tape);
        let mut items: Vec<Item> = {
            let mut g = DocGen::new(&mut cx.tape, opts);
            g.document().into_iter().map(Item::Node).collect()
        };
        let mut st = SplitState { counter: 0, max_files: 1 + cx.tape.draw(6) as u32, made: 0, max_depth_reached: 0, decoys: Vec::new(), syntax: String::new() };
        split_list(cx, &mut items, 0, "/work", 1, &mut st, 4, false);
        if st.made == 0 {
            // make sure there is at least one include: split the content of the first MODULE or the top level
            make_include(cx, &mut items, 0, "/work", 1, &mut st, false);
        }
        let a2ml_inc = cx.tape.chance(1, 3) && split_a2ml(cx, &mut items, "/work", &mut st);
        let mut root = render_file(&mut cx.tape, "/work/main.a2l", &items, &lo, 0);
        // degenerate shape: a comment-only include file
        fn patch_empty(cx: &mut Cx, f: &mut RenderedFile) {
            for d in &mut f.directives {
                if !d.a2ml_level && d.file.text.trim().is_empty() && cx.tape.chance(1, 2) {
                    d.file.text = "/* nothing but a comment */\n// and another one\n".to_string();
                    cx.probe("comment-only-include-file");
                } else if !d.a2ml_level && d.file.text.trim().is_empty() {
                    cx.probe("empty-include-file");
                }
                patch_empty(cx, &mut d.file);
            }
        }
        patch_empty(cx, &mut root);
        if cx.tape.chance(1, 3) && duplicate_a_directive(cx, &mut root) {
            // known finding KF-C16-1: the writer emits one directive per file and block
            cx.probe("same-file-included-twice-in-one-block");
            cx.trigger("same-file-included-twice-in-one-block");
        }
        install_tree(&fs, cx, &root);
        for (rel, content) in &st.decoys {
            // only where it does not shadow a real file of the tree
            let p = crate::vfs::normalize("/cwd", rel);
            if fs.get(&p).is_none() {
                fs.put(&p, content.as_bytes());
                cx.probe("decoy-at-cwd-relative-location");
            }
        }
        let flattened = root.flatten();
        let strict = cx.tape.chance(1, 2);
        let chunking = match cx.tape.draw(4) {
            0 => Chunking::Whole,
            1 => Chunking::Random(4096),
            2 => Chunking::Random(9),
            _ => Chunking::OneByte,
        };
        fs.set_chunking(chunking);
        let dirs = root.all_directives();
        let depth = dirs.iter().map(|d| d.2).max().unwrap_or(0);
        if depth >= 2 {
            cx.trigger("a2l-include-depth>=2");
            cx.probe("include-resolved-at-depth>=2");
        }
        if depth >= 3 {
            cx.probe("include-resolved-at-depth-3");
        }
        if cx.render {
            for f in root.all_files() {
                cx.event(&format!("file {} ({} bytes): {}", f.path, f.text.len(), crate::runner::clip(&f.text, 1200)));
            }
            for (f, d, dep) in &dirs {
                cx.event(&format!("directive in {} line {}: /include {}{}{} -> {} (depth {dep}{})", f.path, d.line, if d.quoted { "\"" } else { "" }, d.name, if d.quoted { "\"" } else { "" }, d.file.path, if d.a2ml_level { ", A2ML level" } else { "" }));
            }
        }
        cx.digest_bytes(flattened.as_bytes());

        // ---- reference model: the flattened text
        let reference = sut::load_str(cx, "T1", &flattened, None, strict)?;
        // ---- T1: load(main) succeeds iff the flattened text loads; equal models
        let (loaded, calls, _, guard) = load_main(cx, &fs, "T1", "/work/main.a2l", strict, BTreeMap::new(), true)?;
        if guard {
            return Err(cx.fail("T4", "include-cycle-not-detected", "cycle guard hit in a tree without cycles".to_string()));
        }
        let (model, diags) = match (loaded, reference) {
            (Ok((m, d)), Ok((rm, rd))) => {
                let mm = merged(cx, &m)?;
                let eq = guarded(cx, "no-panic", "model comparison", || {
                    if mm == rm {
                        return true;
                    }
                    if !a2ml_inc {
                        return false;
                    }
                    // with an A2ML-level include the merged A2ML text is compared up to white space: whether the spliced
                    // text is separated from its surroundings by a line break is a choice, and the property says nothing
                    // about it (T3 decides whether the merged text still means the same)
                    let strip = |f: &A2lFile| {
                        let mut c = f.clone();
                        for module in &mut c.project.module {
                            if let Some(a2ml) = &mut module.a2ml {
                                a2ml.a2ml_text.retain(|ch| !ch.is_ascii_whitespace());
                            }
                        }
                        c
                    };
                    strip(&mm) == strip(&rm)
                })?;
                if !eq {
                    return Err(cx.fail("T1", "include-not-transparent", format!("load(main) differs from loading the flattened text: {}", crate::c01::model_diff(&rm, &mm))));
                }
                if !a2ml_inc {
                    // cross-check that does not rely on the crate's own PartialEq (see C01 O2)
                    if let Some(d) = guarded(cx, "no-panic", "Debug rendering of the models", || crate::c01::independent_diff(&rm, &mm))? {
                        return Err(cx.fail("T1", "equal-by-PartialEq-but-Debug-renderings-differ", format!("load(main) and the flattened text give models that the crate's == calls equal, but their Debug renderings (IF_DATA excluded) differ: {d}")));
                    }
                }
                if !a2ml_inc {
                    let eq2 = guarded(cx, "no-panic", "model comparison", || m == rm)?;
                    if !eq2 {
                        return Err(cx.fail("T1", "include-not-transparent", format!("load(main) (before merge_includes) differs from the flattened text: {}", crate::c01::model_diff(&rm, &m))));
                    }
                }
                if sut::diag_classes(&d) != sut::diag_classes(&rd) {
                    return Err(cx.fail("T1", "diagnostics-differ", format!("{:?} vs {:?}", sut::diag_classes(&d), sut::diag_classes(&rd))));
                }
                // T1 for the string entry point: the text of the main file handed to load_from_string while the
                // process stands in the main file's directory resolves the same directives to the same files
                if cx.tape.chance(1, 3) {
                    fs.set_cwd("/work");
                    fs.begin_op(BTreeMap::new(), false);
                    let total = total_bytes(&fs);
                    let from_string = sut::load_str(cx, "T1", &root.text, None, strict);
                    fs.set_cwd("/cwd");
                    match from_string? {
                        Ok((ms, _)) => {
                            let mms = merged(cx, &ms)?;
                            if !guarded(cx, "no-panic", "model comparison", || mms == mm)? {
                                return Err(cx.fail("T1", "string-entry-differs", format!("load_from_string(text of main) in the main file's directory differs from load(main): {}", crate::c01::model_diff(&mm, &mms))));
                            }
                        }
                        Err(e) => return Err(cx.fail("T1", "string-entry-include-load-failed", format!("load(main) succeeds, load_from_string(text of main) in the same directory fails: {e}"))),
                    }
                    let _ = total;
                    cx.probe("main-text-through-load_from_string");
                }
                (m, d)
            }
            (Err(e), Ok(_)) => return Err(cx.fail("T1", "include-load-failed", format!("the flattened text loads but load(main) fails: {e}"))),
            (Ok(_), Err(e)) => return Err(cx.fail("T1", "flattened-rejected", format!("load(main) succeeds but the flattened text is rejected: {e}"))),
            (Err(_), Err(_)) => {
                cx.vacuous = true;
                cx.event("the generated document is not accepted by the tree under test: vacuous");
                return Ok(());
            }
        };
        cx.event(&format!("T1 ok: {} files, {} directives, depth {depth}, {} file-system calls, syntax {}", root.all_files().len(), dirs.len(), calls.len(), st.syntax));

        // ---- T2: write(main') into the same directory, reload, equal; include files untouched
        let before = fs.snapshot_files();
        fs.begin_op(BTreeMap::new(), false);
        match sut::write_path(cx, "T2", &model, "/work/main_written.a2l", None)? {
            Ok(()) => {}
            Err(e) => return Err(cx.fail("T2", "write-failed", format!("{e}"))),
        }
        let after = fs.snapshot_files();
        for (p, content) in &before {
            if after.get(p) != Some(content) {
                return Err(cx.fail("T2", "include-file-modified", format!("{p} was changed by writing the main file")));
            }
        }
        let written = String::from_utf8_lossy(&fs.get("/work/main_written.a2l").unwrap_or_default()).to_string();
        cx.event_lazy("written main file", || crate::runner::clip(&written, 1500));
        let (reloaded, _, _, _) = load_main(cx, &fs, "T2", "/work/main_written.a2l", strict, BTreeMap::new(), false)?;
        match reloaded {
            Ok((m2, _)) => {
                let eq = guarded(cx, "no-panic", "model comparison", || m2 == model)?;
                if !eq {
                    return Err(cx.fail("T2", "reloaded-model-differs", format!("loading the written main file from the same directory gives a different model: {}", crate::c01::model_diff(&model, &m2))));
                }
            }
            Err(e) => return Err(cx.fail("T2", "reload-failed", format!("the written main file does not load from the same directory: {e}"))),
        }
        // directives must be preserved for includes that contributed elements
        let contributing = dirs.iter().filter(|(f, d, _)| f.path == root.path && !d.a2ml_level && d.file.has_elements()).count();
        let written_directives = written.matches("/include").count();
        if contributing > 0 && written_directives == 0 {
            return Err(cx.fail("T2", "directives-not-preserved", format!("{contributing} include directives of the main file contributed elements but the written file has none")));
        }

        // ---- T2b: the same after an edit that reorders the output (new element + sort_new_items, or sort):
        // the directives must still be written so that the reload from the same directory gives the edited model
        // (only where the MODULE itself lives in the main file: new content of a block that is written as an
        // /include directive cannot be written by design, the library never writes include files)
        let module_in_main = model.project.get_layout().incfile.is_none() && model.project.module.iter().all(|m| m.get_layout().incfile.is_none());
        if cx.tape.chance(1, 2) && !model.project.module.is_empty() && module_in_main {
            let mut edited = guarded(cx, "no-panic", "clone", || model.clone())?;
            // (a full sort() is not used here: it also reorders unnamed lists such as module-level IF_DATA, whose
            // order after a reload through includes is C14's subject, not C16's)
            let how = cx.tape.draw(2);
            let desc = guarded(cx, "no-panic", "edit before write", || {
                if how == 2 {
                    edited.sort();
                    "sort()".to_string()
                } else {
                    let mi = 0;
                    let n = 1 + how as usize;
                    for k in 0..n {
                        let name = format!("{}_new_{k}", ["aaa", "mmm", "zzz"][k % 3]);
                        edited.project.module[mi].measurement.push(a2lfile::Measurement::new(name, String::new(), a2lfile::DataType::Ubyte, "NO_COMPU_METHOD".to_string(), 0, 0.0, 0.0, 255.0));
                    }
                    edited.sort_new_items();
                    format!("push {n} MEASUREMENT + sort_new_items()")
                }
            })?;
            fs.begin_op(BTreeMap::new(), false);
            match sut::write_path(cx, "T2", &edited, "/work/main_edited.a2l", None)? {
                Ok(()) => {}
                Err(e) => return Err(cx.fail("T2", "write-failed", format!("{e}"))),
            }
            let (reloaded, _, _, _) = load_main(cx, &fs, "T2", "/work/main_edited.a2l", strict, BTreeMap::new(), false)?;
            match reloaded {
                Ok((mut m2, _)) => {
                    let mut want = edited.clone();
                    crate::c01::canonicalize_lists(&mut want);
                    crate::c01::canonicalize_lists(&mut m2);
                    for f in [&mut want, &mut m2] {
                        for m in &mut f.project.module {
                            m.user_rights.sort_by(|a, b| a.user_level_id.cmp(&b.user_level_id));
                        }
                    }
                    let eq = guarded(cx, "no-panic", "model comparison", || m2 == want)?;
                    if !eq {
                        let written2 = String::from_utf8_lossy(&fs.get("/work/main_edited.a2l").unwrap_or_default()).to_string();
                        cx.event_lazy("written main file after the edit", || crate::runner::clip(&written2, 2500));
                        return Err(cx.fail("T2", "reloaded-model-differs-after-edit", format!("after {desc}: loading the written main file gives a different model (up to list order): {}", crate::c01::model_diff(&want, &m2))));
                    }
                    cx.probe("write-after-reordering-edit");
                }
                Err(e) => return Err(cx.fail("T2", "reload-failed-after-edit", format!("after {desc}: {e}"))),
            }
            fs.remove("/work/main_edited.a2l");
        }

        // ---- T3: merge_includes makes the output self-contained and equal
        let mm = merged(cx, &model)?;
        let mtext = sut::write_str(cx, "T3", &mm)?;
        if mtext.contains("/include") {
            return Err(cx.fail("T3", "not-self-contained", "write_to_string() after merge_includes() still contains an /include directive".to_string()));
        }
        let empty = SimFs::new("/empty", 1);
        empty.install();
        let selfcontained = sut::load_str(cx, "T3", &mtext, None, strict)?;
        fs.install();
        match selfcontained {
            Ok((m3, _)) => {
                let eq = guarded(cx, "no-panic", "model comparison", || m3 == mm)?;
                if !eq {
                    return Err(cx.fail("T3", "merged-model-differs", format!("the self-contained text loads to a different model: {}", crate::c01::model_diff(&mm, &m3))));
                }
            }
            Err(e) => return Err(cx.fail("T3", "self-contained-text-rejected", format!("{e}"))),
        }
        cx.nontrivial = dirs.iter().any(|(_, d, _)| !d.file.text.trim().is_empty());
        cx.sig(&format!("depth{depth}|n{}|{}|a2ml{a2ml_inc}|strict{strict}|{}", dirs.len().min(6), st.syntax, feats_string(&root.feats)));

        // ---- fault enumeration over the recorded call sequence
        let max_calls = if cx.tier == Tier::Thorough { 400 } else { 120 };
        let main_path = root.path.clone();
        let file_of = |p: &str| -> Option<(&RenderedFile, &RDirective, u32)> { dirs.iter().find(|(_, d, _)| d.file.path == p).copied() };
        let has_decoys = !st.decoys.is_empty();
        let mut enumerated = 0u32;
        for (idx, call) in calls.iter().enumerate().take(max_calls) {
            let kinds: Vec<Fault> = match call.kind {
                CallKind::Open => vec![Fault::OpenErr(ENOENT), Fault::OpenErr(EACCES), Fault::OpenErr(EIO), Fault::OpenErr(EMFILE)],
                CallKind::Meta => vec![Fault::MetaErr, Fault::MetaSize(0), Fault::MetaSize(1), Fault::MetaSize(2), Fault::MetaSize(3), Fault::MetaSize(4)],
                CallKind::Read => vec![Fault::ReadShort(1), Fault::ReadShort(7), Fault::ReadEintr, Fault::ReadEio],
                CallKind::Exists => {
                    if has_decoys {
                        vec![]
                    } else {
                        vec![Fault::ExistsFalse]
                    }
                }
                CallKind::Write => vec![],
            };
            // with byte-wise chunking the read calls are many: sample them
            if call.kind == CallKind::Read && chunking == Chunking::OneByte && idx % 97 != 3 {
                continue;
            }
            for fault in kinds {
                let mut plan = BTreeMap::new();
                plan.insert(idx, fault.clone());
                let (res, _, fired, guard) = load_main(cx, &fs, "F", "/work/main.a2l", strict, plan, false)?;
                if fired.is_empty() {
                    continue;
                }
                enumerated += 1;
                cx.fault_fired(fault.name());
                if guard {
                    return Err(cx.fail("T4", "include-cycle-not-detected", "cycle guard hit".to_string()));
                }
                let ctx = format!("fault {} at call {idx} ({:?} {})", fault.name(), call.kind, call.path);
                if fault.is_benign() {
                    match res {
                        Ok((m, d)) => {
                            let eq = guarded(cx, "no-panic", "model comparison", || m == model)?;
                            if !eq || sut::diag_classes(&d) != sut::diag_classes(&diags) {
                                return Err(cx.fail("F-benign", "benign-fault-changed-result", format!("{ctx}: the loaded model or its diagnostics differ from the fault-free load")));
                            }
                            if matches!(fault, Fault::ReadEintr) {
                                cx.probe("EINTR-retried");
                            }
                        }
                        Err(e) => return Err(cx.fail("F-benign", "benign-fault-failed-load", format!("{ctx}: {e}"))),
                    }
                    cx.sig(&format!("benign|{}|{:?}", fault.name(), call.kind));
                    continue;
                }
                // hard faults
                let role = if call.path == main_path { "main".to_string() } else if let Some((_, d, _)) = file_of(&call.path) { if d.a2ml_level { "a2ml-include".to_string() } else { "a2l-include".to_string() } } else { "other".to_string() };
                match (role.as_str(), res) {
                    ("main", Ok(_)) => return Err(cx.fail("F-hard", "error-swallowed", format!("{ctx}: load returned Ok"))),
                    // which error value is returned for the main file is not part of the property
                    ("main", Err(_)) => {}
                    ("a2l-include", Ok(_)) => return Err(cx.fail("F-hard", "partial-result-instead-of-error", format!("{ctx}: the include could not be read but load returned Ok"))),
                    ("a2l-include", Err(e)) => {
                        let (includer, d, _) = file_of(&call.path).unwrap();
                        // "reported as an error naming the directive": the error text contains the directive's file
                        // name as written (or with normalised separators). The error type, the line number and the
                        // name of the including file are reported by the library today, but they are not demanded here.
                        let msg = e.to_string();
                        let named = msg.contains(&d.name) || msg.contains(&d.name.replace('\\', "/"));
                        if !named {
                            return Err(cx.fail("F-hard", "include-error-names-wrong-directive", format!("{ctx}: the error does not name the directive {:?} (line {} of {}): {msg}", d.name, d.line, includer.path)));
                        }
                    }
                    ("a2ml-include", Ok((_, d))) => {
                        let (_, dir, _) = file_of(&call.path).unwrap();
                        let named = d.iter().any(|m| m.to_string().contains(dir.name.replace('\\', "/").rsplit('/').next().unwrap_or("")));
                        if strict {
                            return Err(cx.fail("F-hard", "a2ml-include-error-swallowed", format!("{ctx}: strict load returned Ok")));
                        }
                        if !named {
                            return Err(cx.fail("F-hard", "a2ml-include-failure-silent", format!("{ctx}: non-strict load returned Ok without a diagnostic naming the include; diagnostics: {:?}", d.iter().map(ToString::to_string).collect::<Vec<_>>())));
                        }
                    }
                    ("a2ml-include", Err(e)) => {
                        let (_, dir, _) = file_of(&call.path).unwrap();
                        let base = dir.name.replace('\\', "/");
                        let base = base.rsplit('/').next().unwrap_or("");
                        // non-strict: the include failure is downgraded to a diagnostic, the load may then fail for
                        // another reason (e.g. IF_DATA that is no longer described); the failure is not silent either way
                        if strict && !e.to_string().contains(base) {
                            return Err(cx.fail("F-hard", "a2ml-include-error-unnamed", format!("{ctx}: the error does not name the include: {e}")));
                        }
                    }
                    (_, Ok(_)) => return Err(cx.fail("F-hard", "error-swallowed", format!("{ctx}: load returned Ok"))),
                    (_, Err(_)) => {}
                }
                cx.sig(&format!("hard|{}|{role}", fault.name()));
            }
        }
        cx.event(&format!("fault enumeration: {enumerated} single faults over {} calls", calls.len().min(max_calls)));

        // ---- seeded double faults: totality only (Ok or Err, no panic), plus benign+benign = unchanged
        for _ in 0..4 {
            if calls.len() < 2 {
                break;
            }
            let a = cx.tape.draw(calls.len() as u64) as usize;
            let b = cx.tape.draw(calls.len() as u64) as usize;
            let mut plan = BTreeMap::new();
            for idx in [a, b] {
                let f = match calls[idx].kind {
                    CallKind::Open => Fault::OpenErr(*cx.tape.pick(&[ENOENT, EACCES, EIO])),
                    CallKind::Meta => Fault::MetaSize(cx.tape.draw(5) as u8),
                    CallKind::Read => match cx.tape.draw(3) {
                        0 => Fault::ReadEintr,
                        1 => Fault::ReadShort(1 + cx.tape.draw(5) as usize),
                        _ => Fault::ReadEio,
                    },
                    CallKind::Exists => Fault::ExistsFalse,
                    CallKind::Write => Fault::WriteErr(EIO),
                };
                plan.insert(idx, f);
            }
            let all_benign = plan.values().all(Fault::is_benign);
            let (res, _, fired, _) = load_main(cx, &fs, "F2", "/work/main.a2l", strict, plan, false)?;
            for (_, f) in &fired {
                cx.fault_fired(f.name());
            }
            if all_benign {
                match res {
                    Ok((m, _)) => {
                        if !guarded(cx, "no-panic", "model comparison", || m == model)? {
                            return Err(cx.fail("F-benign", "benign-fault-changed-result", "two benign faults changed the model".to_string()));
                        }
                    }
                    Err(e) => return Err(cx.fail("F-benign", "benign-fault-failed-load", format!("two benign faults: {e}"))),
                }
            }
        }
        SimFs::uninstall();
        Ok(())
    }
}

// ------------------------------------------------------------------------------------------------

/// T4: a file that includes itself or its includer must be reported as an error, not recurse without bound
pub struct C16Cycles;

impl Scenario for C16Cycles {
    fn property(&self) -> &'static str {
        "C16"
    }
    fn name(&self) -> &'static str {
        "include_cycles"
    }

    fn run(&self, cx: &mut Cx) -> Result<(), Violation> {
        let fs = SimFs::new("/cwd", cx.tape.draw_u64());
        fs.install();
        fs.mkdir_p("/work");
        let a2ml_level = cx.tape.chance(1, 3);
        let mutual = cx.tape.chance(1, 2);
        let quoted = cx.tape.chance(1, 2);
        let q = if quoted { "\"" } else { "" };
        let strict = cx.tape.chance(1, 2);
        let elem = "/begin UNIT u1 \"\" \"\" DERIVED /end UNIT\n";
        if a2ml_level {
            let inner = if mutual { format!("struct S {{ int; }};\n/include {q}part_b.aml{q}\n") } else { format!("struct S {{ int; }};\n/include {q}part_a.aml{q}\n") };
            fs.put("/work/aml/part_a.aml", inner.as_bytes());
            fs.put("/work/aml/part_b.aml", format!("/include {q}part_a.aml{q}\n").as_bytes());
            fs.put("/work/main.a2l", format!("ASAP2_VERSION 1 71\n/begin PROJECT p \"\"\n/begin MODULE m \"\"\n/begin A2ML\n/include {q}aml/part_a.aml{q}\nblock \"IF_DATA\" taggedunion {{ \"X\" int; }};\n/end A2ML\n{elem}/end MODULE\n/end PROJECT\n").as_bytes());
        } else {
            let b = if mutual { format!("{elem}/include {q}../main.a2l{q}\n") } else { format!("{elem}/include {q}b.a2l{q}\n") };
            fs.put("/work/sub/b.a2l", b.as_bytes());
            let direct_self = !mutual && cx.tape.chance(1, 2);
            let inc = if direct_self { format!("/include {q}main.a2l{q}") } else { format!("/include {q}sub/b.a2l{q}") };
            fs.put("/work/main.a2l", format!("ASAP2_VERSION 1 71\n/begin PROJECT p \"\"\n/begin MODULE m \"\"\n{inc}\n/end MODULE\n/end PROJECT\n").as_bytes());
        }
        cx.event(&format!("cycle scenario: a2ml_level={a2ml_level} mutual={mutual} quoted={quoted} strict={strict}"));
        if cx.render {
            for (p, c) in fs.snapshot_files() {
                cx.event(&format!("file {p}: {}", String::from_utf8_lossy(&c)));
            }
        }
        cx.trigger(if a2ml_level { "a2ml-include-cycle" } else { "a2l-include-cycle" });
        let (res, _, _, guard) = load_main(cx, &fs, "T4", "/work/main.a2l", strict, BTreeMap::new(), false)?;
        cx.nontrivial = true;
        cx.sig(&format!("cycle|{a2ml_level}|{mutual}|{quoted}|{strict}"));
        if guard {
            return Err(cx.fail("T4", "include-cycle-not-detected", format!("a file that includes {} was opened more than 48 times during one load: the recursion is unbounded (without the simulator's guard it ends in a stack overflow)", if mutual { "its includer" } else { "itself" })));
        }
        match res {
            Err(_) => {}
            Ok((_, d)) => {
                if !(a2ml_level && !strict && !d.is_empty()) {
                    return Err(cx.fail("T4", "include-cycle-accepted", "load returned Ok without diagnostic for a cyclic include".to_string()));
                }
            }
        }
        SimFs::uninstall();
        Ok(())
    }
}

/// replays a fixed file tree (a known finding recorded as literal input): load the main file, write it next to
/// itself, reload, compare (T2). Format of the input: lines `#file <absolute path>` start a file, the first file
/// is the main file; an optional first line `#trigger <name>` names the condition the tree was built for.
pub struct C16FixedTree;

impl Scenario for C16FixedTree {
    fn property(&self) -> &'static str {
        "C16"
    }
    fn name(&self) -> &'static str {
        "fixed_tree_write_reload"
    }
    fn run(&self, cx: &mut Cx) -> Result<(), Violation> {
        let Some(input) = crate::runner::FIXED_INPUT.read().unwrap().clone() else {
            cx.vacuous = true;
            return Ok(());
        };
        let fs = SimFs::new("/cwd", cx.tape.draw_u64());
        fs.install();
        fs.mkdir_p("/work");
        let mut files: Vec<(String, String)> = Vec::new();
        for line in input.split_inclusive('\n') {
            if let Some(t) = line.strip_prefix("#trigger ") {
                cx.trigger(t.trim());
            } else if let Some(p) = line.strip_prefix("#file ") {
                files.push((p.trim().to_string(), String::new()));
            } else if let Some(f) = files.last_mut() {
                f.1.push_str(line);
            }
        }
        let Some(main) = files.first().map(|f| f.0.clone()) else {
            cx.vacuous = true;
            return Ok(());
        };
        let mut total = 0;
        for (p, t) in &files {
            fs.put(p, t.as_bytes());
            total += t.len();
            cx.event_lazy(&format!("file {p}"), || t.clone());
        }
        fs.begin_op(BTreeMap::new(), false);
        let model = match sut::load_path(cx, "T1", &main, None, false, total)? {
            Ok((m, _)) => m,
            Err(e) => {
                cx.vacuous = true;
                cx.event(&format!("tree not accepted: {e}"));
                return Ok(());
            }
        };
        let written = format!("{}/main_written.a2l", dir_of(&main));
        fs.begin_op(BTreeMap::new(), false);
        match sut::write_path(cx, "T2", &model, &written, None)? {
            Ok(()) => {}
            Err(e) => return Err(cx.fail("T2", "write-failed", format!("{e}"))),
        }
        fs.begin_op(BTreeMap::new(), false);
        match sut::load_path(cx, "T2", &written, None, false, 2 * total + 4096)? {
            Ok((m2, _)) => {
                if m2 != model {
                    return Err(cx.fail("T2", "reloaded-model-differs", format!("loading the written main file from the same directory gives a different model: {}", crate::c01::model_diff(&model, &m2))));
                }
            }
            Err(e) => return Err(cx.fail("T2", "reload-failed", format!("the written main file does not load from the same directory: {e}"))),
        }
        cx.nontrivial = true;
        SimFs::uninstall();
        Ok(())
    }
}

/// the fragment entry point: a file holding the bare content of a MODULE, split into include files like a whole
/// document. `load_fragment_file(path)` must resolve the directives relative to that file and give the module that
/// `load_fragment` builds from the flattened text.
pub struct C16Fragments;

impl Scenario for C16Fragments {
    fn property(&self) -> &'static str {
        "C16"
    }
    fn name(&self) -> &'static str {
        "fragment_files_with_includes"
    }
    fn run(&self, cx: &mut Cx) -> Result<(), Violation> {
        let fs = SimFs::new("/cwd", cx.tape.draw_u64());
        fs.install();
        fs.mkdir_p("/work/frag");
        let mut opts = GenOpts::swarm(&mut cx.tape);
        opts.budget = opts.budget.clamp(8, 80);
        opts.float_overflow = false;
        let lo = LayoutOpts::swarm(&mut cx.tape);
        let mut items: Vec<Item> = {
            let mut g = DocGen::new(&mut cx.tape, opts);
            g.fragment().into_iter().map(Item::Node).collect()
        };
        if items.is_empty() {
            cx.vacuous = true;
            return Ok(());
        }
        let mut st = SplitState { counter: 0, max_files: 1 + cx.tape.draw(4) as u32, made: 0, max_depth_reached: 0, decoys: Vec::new(), syntax: String::new() };
        split_list(cx, &mut items, 0, "/work/frag", 1, &mut st, 6, false);
        if st.made == 0 {
            make_include(cx, &mut items, 0, "/work/frag", 1, &mut st, false);
        }
        let root = render_file(&mut cx.tape, "/work/frag/fragment.a2l", &items, &lo, 2);
        install_tree(&fs, cx, &root);
        for (rel, content) in &st.decoys {
            let p = crate::vfs::normalize("/cwd", rel);
            if fs.get(&p).is_none() {
                fs.put(&p, content.as_bytes());
                cx.probe("decoy-at-cwd-relative-location");
            }
        }
        let flattened = root.flatten();
        if cx.render {
            for f in root.all_files() {
                cx.event_lazy(&format!("file {} ({} bytes)", f.path, f.text.len()), || crate::runner::clip(&f.text, 1500));
            }
        }
        let total = total_bytes(&fs);
        fs.begin_op(BTreeMap::new(), false);
        let loaded = sut::load_fragment_path(cx, "T1", "/work/frag/fragment.a2l", None, total)?;
        let reference = sut::load_fragment(cx, "T1", &flattened, None)?;
        match (loaded, reference) {
            (Ok(m), Ok(rm)) => {
                let mm = guarded(cx, "no-panic", "merge_includes", || {
                    let mut c = m.clone();
                    c.merge_includes();
                    c
                })?;
                let eq = guarded(cx, "no-panic", "model comparison", || mm == rm)?;
                if !eq {
                    return Err(cx.fail("T1", "include-not-transparent", "load_fragment_file(main) differs from load_fragment(flattened text)".to_string()));
                }
                if root.has_elements() && root.directives.iter().any(|d| d.file.has_elements()) {
                    cx.nontrivial = true;
                }
            }
            (Err(e), Ok(_)) => return Err(cx.fail("T1", "include-load-failed", format!("the flattened fragment loads but load_fragment_file(main) fails: {e}"))),
            (Ok(_), Err(e)) => return Err(cx.fail("T1", "flattened-text-rejected", format!("load_fragment_file(main) succeeds but the flattened fragment is rejected: {e}"))),
            (Err(_), Err(_)) => {
                cx.vacuous = true;
            }
        }
        cx.sig(&format!("fragment|{}|{}|{}", st.made.min(4), st.max_depth_reached, st.syntax));
        SimFs::uninstall();
        Ok(())
    }
}
