//! Memory seam: a counting global allocator. Every thread keeps the number of live bytes it has allocated since the
//! last reset and the peak of that number, so that a guarded call into the library can be checked for memory
//! amplification (a small input that makes the loader allocate without bound) without waiting for the machine to run
//! out of memory. The counters are plain thread-local cells without destructor: no allocation, no lazy initialisation,
//! safe to touch from inside the allocator.

use std::alloc::{GlobalAlloc, Layout, System};
use std::cell::Cell;

thread_local! {
    static LIVE: Cell<usize> = const { Cell::new(0) };
    static PEAK: Cell<usize> = const { Cell::new(0) };
}

pub struct CountingAlloc;

/// A thread that holds more than this many live bytes gets no more memory: the allocation fails, which aborts the
/// process (Rust cannot unwind from a failed allocation) and is reported through the abnormal-termination path of
/// the check script with the run that caused it. Without the cap a library that amplifies its input without bound
/// would take the whole machine down (OOM killer) before anything could be reported. The largest legitimate peak of
/// a run is below 100 MiB.
pub const HARD_CAP_PER_THREAD: usize = 2 << 30;

#[inline]
fn over_cap(extra: usize) -> bool {
    LIVE.try_with(|l| l.get().saturating_add(extra) > HARD_CAP_PER_THREAD).unwrap_or(false)
}

#[inline]
fn add(n: usize) {
    let _ = LIVE.try_with(|l| {
        let v = l.get().saturating_add(n);
        l.set(v);
        let _ = PEAK.try_with(|p| {
            if v > p.get() {
                p.set(v);
            }
        });
    });
}

#[inline]
fn sub(n: usize) {
    // memory that was allocated before the last reset, or by another thread, is not counted: saturate at zero
    let _ = LIVE.try_with(|l| l.set(l.get().saturating_sub(n)));
}

unsafe impl GlobalAlloc for CountingAlloc {
    unsafe fn alloc(&self, layout: Layout) -> *mut u8 {
        if over_cap(layout.size()) {
            return std::ptr::null_mut();
        }
        let p = System.alloc(layout);
        if !p.is_null() {
            add(layout.size());
        }
        p
    }
    unsafe fn dealloc(&self, ptr: *mut u8, layout: Layout) {
        System.dealloc(ptr, layout);
        sub(layout.size());
    }
    unsafe fn alloc_zeroed(&self, layout: Layout) -> *mut u8 {
        if over_cap(layout.size()) {
            return std::ptr::null_mut();
        }
        let p = System.alloc_zeroed(layout);
        if !p.is_null() {
            add(layout.size());
        }
        p
    }
    unsafe fn realloc(&self, ptr: *mut u8, layout: Layout, new_size: usize) -> *mut u8 {
        if new_size > layout.size() && over_cap(new_size - layout.size()) {
            return std::ptr::null_mut();
        }
        let p = System.realloc(ptr, layout, new_size);
        if !p.is_null() {
            if new_size >= layout.size() {
                add(new_size - layout.size());
            } else {
                sub(layout.size() - new_size);
            }
        }
        p
    }
}

/// start a measurement on this thread
pub fn reset() {
    LIVE.with(|l| l.set(0));
    PEAK.with(|p| p.set(0));
}

/// peak of the live bytes allocated by this thread since the last reset
pub fn peak() -> usize {
    PEAK.with(Cell::get)
}
