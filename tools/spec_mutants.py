#!/usr/bin/env python3
"""tools/spec_mutants.py <n> [seed]: mutation run over the generated writers in specification.rs.
Operator: two neighbouring `writer.add_<kind>(self.<field>, ...)` calls of the same kind inside one stringify() get their
value expressions swapped (the element is then written with two fields exchanged). Every viable mutant (one that compiles)
is run against the C01 quick check in a scratch worktree + scratch copy of the simulator; prints one line per mutant."""
import re, subprocess, sys, random, os, shutil
n = int(sys.argv[1]) if len(sys.argv) > 1 else 10
seed = int(sys.argv[2]) if len(sys.argv) > 2 else 1
W = f"/tmp/specmut_{os.getpid()}"
def sh(cmd, **kw): return subprocess.run(cmd, shell=True, capture_output=True, text=True, **kw)
sh(f"git -C /repo worktree add -q --detach {W}/repo HEAD")
os.makedirs(f"{W}/verif/sim", exist_ok=True)
for x in ["src", "grammar", "Cargo.toml", "Cargo.lock", ".cargo"]:
    sh(f"cp -r /verif/sim/{x} {W}/verif/sim/")
sh(f"cp /verif/known_findings.json {W}/verif/")
sh(f"sed -i 's|/repo/|{W}/repo/|g' {W}/verif/sim/Cargo.toml")
spec = f"{W}/repo/a2lfile/src/specification.rs"
lines = open(spec).read().split("\n")
# call sites: (line index of the value expression, kind, enclosing impl name)
sites = []
impl = None
for i, l in enumerate(lines):
    m = re.match(r"^impl (\w+) \{", l)
    if m: impl = m.group(1)
    m = re.match(r"^\s+writer\.add_(integer|float|str|quoted_string)\($", l)
    if m and re.match(r"^\s+(&?self\.\w+),$", lines[i + 1]):
        sites.append((i + 1, m.group(1), impl, lines[i + 1].strip().rstrip(",")))
    m = re.match(r"^\s+writer\.add_(float|str|quoted_string)\((&?self\.\w+), ", l)
    if m:
        sites.append((i, m.group(1), impl, m.group(2)))
pairs = [(a, b) for a, b in zip(sites, sites[1:]) if a[1] == b[1] and a[2] == b[2] and a[3] != b[3]]
random.Random(seed).shuffle(pairs)
# second operator (argv[3] == "drop"): one child element is no longer handed to the writer (`tgroup.push(...)` removed)
drops = []
impl = None
for i, l in enumerate(lines):
    m = re.match(r"^impl (\w+) \{", l)
    if m: impl = m.group(1)
    if re.match(r"^\s+tgroup\.push\(writer::TaggedItemInfo::Tag \{$", l):
        j = i
        while not re.match(r"^\s+\}\);$", lines[j]): j += 1
        tag = re.search(r'tag: "(\w+)"', lines[i + 1])
        drops.append((i, j, impl, tag.group(1) if tag else "?"))
random.Random(seed).shuffle(drops)
mode = sys.argv[3] if len(sys.argv) > 3 else "swap"
try:
    print(f"{len(sites)} call sites, {len(pairs)} swappable pairs; base build ...", flush=True)
    r = sh("cargo build --release --offline", cwd=f"{W}/verif/sim")
    done = caught = 0
    work = pairs if mode == "swap" else drops
    if mode != "swap":
        print(f"{len(drops)} child elements handed to the writer", flush=True)
    for item in work:
        if done >= n: break
        mut = list(lines)
        if mode == "swap":
            a, b = item
            mut[a[0]] = lines[a[0]].replace(a[3] + ",", b[3] + ",", 1)
            mut[b[0]] = lines[b[0]].replace(b[3] + ",", a[3] + ",", 1)
            desc = f"{a[2]}: {a[3]} <-> {b[3]} ({a[1]})"
        else:
            i, j, im, tag = item
            for k in range(i, j + 1): mut[k] = "// " + lines[k]
            desc = f"{im}: child {tag} not written"
        open(spec, "w").write("\n".join(mut))
        r = sh("cargo build --release --offline", cwd=f"{W}/verif/sim")
        if r.returncode != 0:
            print(f"not viable (does not compile): {desc}", flush=True)
            continue
        r = sh(f"VERIF_ROOT={W}/verif ./target/release/a2lsim check C01 quick", cwd=f"{W}/verif/sim")
        done += 1
        first = next((l for l in r.stdout.split("\n") if l.startswith("violation:")), "")
        ok = r.returncode == 1
        caught += ok
        print(f"{'caught' if ok else 'MISSED'} {desc}  {first[:120]}", flush=True)
    print(f"{caught} of {done} viable mutants reported by C01 quick")
finally:
    open(spec, "w").write("\n".join(lines))
    sh(f"git -C /repo worktree remove --force {W}/repo")
    shutil.rmtree(W, ignore_errors=True)
