#!/bin/sh
# runs all six quick checks against /repo's current tree with the already built simulator; non-zero if any fails
cd /verif || exit 2
RC=0
for p in C01 C03 C13 C15 C16 C17; do
  ./check $p quick > /tmp/allq_$p.log 2>&1; rc=$?
  echo "$p exit=$rc $(grep -a '^runs=' /tmp/allq_$p.log | cut -c1-150)"
  [ $rc -ne 0 ] && { RC=1; grep -a -E '^violation|^  ' /tmp/allq_$p.log | cut -c1-300 | head -6; }
done
exit $RC
