#!/bin/sh
# tools/try_mutant.sh <id> <property> [tier]
# Applies /verif/seeded/<id>/patch.diff to /repo, runs the property's check, reverts /repo. Prints the verdict line.
ID="$1"; PROP="$2"; TIER="${3:-quick}"
DIR=/verif/seeded/$ID
[ -f "$DIR/patch.diff" ] || { echo "no patch for $ID"; exit 2; }
git -C /repo diff --quiet || { echo "/repo has uncommitted changes"; exit 2; }
git -C /repo apply "$DIR/patch.diff" || { echo "patch does not apply"; exit 2; }
/verif/check "$PROP" "$TIER" > "$DIR/check_${PROP}_${TIER}.log" 2>&1
RC=$?
git -C /repo checkout -- .
echo "$ID $PROP $TIER exit=$RC $(grep -a -c '^VIOLATION' "$DIR/check_${PROP}_${TIER}.log") violation lines; $(grep -a -m1 '^violation:' "$DIR/check_${PROP}_${TIER}.log" | cut -c1-200)"
exit $RC
