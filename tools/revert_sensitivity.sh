#!/bin/sh
# For every fix: commit in /repo: reverse-apply it to the working tree, run the quick check of the property it belongs to,
# revert. The check must fail (exit 1). Output: one line per commit.
cd /verif || exit 2
git -C /repo diff --quiet || { echo "/repo dirty"; exit 2; }
while read -r commit prop; do
  [ -z "$commit" ] && continue
  if git -C /repo show "$commit" | git -C /repo apply -R 2>/dev/null; then
    (ulimit -v 60000000; ./check "$prop" quick > /tmp/revert_$commit.log 2>&1); rc=$?
    first=$(grep -m1 '^violation:' /tmp/revert_$commit.log | sed 's/ (tape.*//' | cut -c1-160)
    git -C /repo checkout -- .
    echo "$commit $prop exit=$rc $first"
  else
    echo "$commit $prop SKIPPED (does not reverse-apply cleanly on top of later fixes)"
  fi
  rm -f /tmp/revert_$commit.log
done <<LIST
e2a371c C13
f4e99dd C01
ed06f47 C01
6873221 C01
423f562 C03
315db3f C01
cacdda5 C01
c90542d C01
7d8fbc3 C01
9d62ca2 C03
215d337 C01
2b7c4b8 C16
3c575b2 C16
6fbc1f5 C16
2be670f C01
051ceb9 C15
75fd087 C01
$(git -C /repo log --format='%h %s' | grep 'sequence whose element' | cut -d' ' -f1) C03
$(git -C /repo log --format='%h %s' | grep 'merge_includes did not descend' | cut -d' ' -f1) C16
$(git -C /repo log --format='%h %s' | grep 'between the last item of an IF_DATA' | cut -d' ' -f1) C16
70e37a9 C03
8fb1d91 C03
20d8817 C01
LIST
