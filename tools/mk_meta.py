#!/usr/bin/env python3
"""tools/mk_meta.py <id> <property> <status> <change> <needs> <result> [origin]: write seeded/<id>/meta.json from the re-verification logs"""
import json, re, sys
mid, prop, status, change, needs, result = sys.argv[1:7]
origin = sys.argv[7] if len(sys.argv) > 7 else "independent sub-agent (round 5: area hints per property, told which spots earlier rounds had used) that saw only the property text and its own scratch worktree"
d = f"/verif/seeded/{mid}"
def results(f):
    try:
        return [l.strip() for l in open(f"{d}/{f}", errors="replace") if l.startswith("test result")]
    except OSError:
        return []
meta = {
    "id": mid, "property": prop, "change": change, "needs_to_manifest": needs,
    "confirmed": {
        "baseline_tests_with_change": results("baseline_with_change.log"),
        "demo_with_change": results("demo_with_change.log"),
        "demo_without_change": results("demo_without_change.log"),
    },
    "ran": f"tools/collect_mutant.sh /tmp/wt_{mid} {mid}; tools/try_mutant_wt.sh seeded/{mid}/patch.diff <property> (scratch worktree + scratch simulator copy; replay file re-executed in a fresh process)",
    "result": result, "status": status, "origin": origin,
}
json.dump(meta, open(f"{d}/meta.json", "w"), indent=1)
print("wrote", f"{d}/meta.json")
