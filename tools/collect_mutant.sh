#!/bin/sh
# tools/collect_mutant.sh <worktree> <id>: re-verify a sub-agent's seeded change and store it under /verif/seeded/<id>
# (1) baseline tests pass with the change, (2) the demo fails with the change, (3) the demo passes without it.
WT="$1"; ID="$2"
DIR=/verif/seeded/$ID
mkdir -p "$DIR"
cd "$WT" || exit 2
export CARGO_TARGET_DIR="$WT/target" CARGO_NET_OFFLINE=true
git diff -- a2lfile/src a2lmacros/src > "$DIR/patch.diff"
cp a2lfile/tests/seeded_demo.rs "$DIR/seeded_demo.rs" 2>/dev/null
cp MUTANT_REPORT.md "$DIR/MUTANT_REPORT.md" 2>/dev/null
mv a2lfile/tests/seeded_demo.rs /tmp/seeded_demo_$ID.rs
cargo test --workspace --offline --no-fail-fast > "$DIR/baseline_with_change.log" 2>&1
BASE=$(grep -E "^test result" "$DIR/baseline_with_change.log" | awk '{p+=$4; f+=$6} END {print p" passed, "f" failed"}')
mv /tmp/seeded_demo_$ID.rs a2lfile/tests/seeded_demo.rs
cargo test -p a2lfile --test seeded_demo --offline > "$DIR/demo_with_change.log" 2>&1; WITH=$?
git apply -R "$DIR/patch.diff"
cargo test -p a2lfile --test seeded_demo --offline > "$DIR/demo_without_change.log" 2>&1; WITHOUT=$?
git apply "$DIR/patch.diff"
echo "$ID: baseline with change: $BASE; demo with change exit=$WITH (expect != 0); demo without change exit=$WITHOUT (expect 0)"
