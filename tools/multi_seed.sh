#!/bin/sh
# runs all six quick checks for several VERIF_SEED values (default 2..9); prints only failures and a summary
cd /verif || exit 2
FROM=${1:-2}; TO=${2:-9}; BAD=0
mkdir -p /tmp/ms_root && cp /verif/known_findings.json /tmp/ms_root/
for s in $(seq $FROM $TO); do
  for p in C01 C03 C13 C15 C16 C17; do
    VERIF_ROOT=/tmp/ms_root VERIF_SEED=$s ./sim/target/release/a2lsim check $p quick > /tmp/ms_$p.log 2>&1; rc=$?
    if [ $rc -ne 0 ]; then BAD=$((BAD+1)); echo "seed $s $p exit=$rc"; grep -a -E '^violation|^  ' /tmp/ms_$p.log | cut -c1-400 | head -4; fi
  done
done
rm -rf /tmp/ms_root /tmp/ms_C*.log
echo "seeds $FROM..$TO done, $BAD failing check runs"
