#!/bin/sh
# tools/try_mutant_wt.sh <patch-file> <property> [tier]
# Like try_mutant.sh but without touching /repo: applies the patch to a scratch worktree and builds a scratch copy of the
# simulator against it (for use while a long run is using /repo). Everything lives under /tmp/mwt_$$ and is removed afterwards.
PATCH="$(readlink -f "$1")"; PROP="$2"; TIER="${3:-quick}"
W=/tmp/mwt_$$
cleanup() { cd /; git -C /repo worktree remove --force "$W/repo" 2>/dev/null; rm -rf "$W"; }
trap cleanup EXIT INT TERM PIPE
git -C /repo worktree add -q "$W/repo" HEAD || exit 2
if ! git -C "$W/repo" apply "$PATCH"; then echo "patch does not apply"; git -C /repo worktree remove --force "$W/repo"; rm -rf "$W"; exit 2; fi
mkdir -p "$W/verif/sim" && cp -r /verif/sim/src /verif/sim/grammar /verif/sim/Cargo.toml /verif/sim/Cargo.lock /verif/sim/.cargo "$W/verif/sim/"
cp /verif/known_findings.json "$W/verif/"
sed -i "s|/repo/|$W/repo/|g" "$W/verif/sim/Cargo.toml"
cd "$W/verif/sim" && CARGO_NET_OFFLINE=true cargo build --release --offline > "$W/build.log" 2>&1 || { echo "build failed"; tail -20 "$W/build.log"; cd /; git -C /repo worktree remove --force "$W/repo"; rm -rf "$W"; exit 2; }
if [ -n "$ONE" ]; then (ulimit -v 60000000; VERIF_ROOT="$W/verif" ./target/release/a2lsim one "$PROP" $ONE > "$W/check.log" 2>&1); RC=$?; cat "$W/check.log" | cut -c1-600; else
(ulimit -v 60000000; VERIF_WATCHDOG_SECS=${VERIF_WATCHDOG_SECS:-300} VERIF_ROOT="$W/verif" ./target/release/a2lsim check "$PROP" "$TIER" > "$W/check.log" 2>&1); RC=$?
# the process itself died: same procedure as in ./check (single worker with a trace file, then abort-replay)
case $RC in 0|1|2) ;; *)
  mkdir -p "$W/verif/replays"
  (ulimit -v 60000000; VERIF_TRACE_FILE="$W/trace" VERIF_ROOT="$W/verif" ./target/release/a2lsim check "$PROP" "$TIER" > "$W/check1.log" 2>&1); RC2=$?
  case $RC2 in 1) cp "$W/check1.log" "$W/check.log"; RC=1; echo "abnormal end with 16 workers; with a single worker the check reports a violation in the ordinary way";; 0|2) echo "abnormal end (status $RC) did not repeat with a single worker (status $RC2)";; *)
    read -r SI RI < "$W/trace"
    VERIF_ROOT="$W/verif" ./target/release/a2lsim abort-replay "$PROP" "$SI" "$RI" "$TIER" "exit status $RC2" >> "$W/check.log" 2>&1; RC=$?
    grep -a -A1 '^violation:' "$W/check.log" | tail -2 | cut -c1-260;;
  esac;;
esac
fi
echo "$(basename "$PATCH") $PROP $TIER exit=$RC $(grep -a -m1 '^violation:' "$W/check.log" | cut -c1-260)"
grep -a -E "^runs=" "$W/check.log" | cut -c1-120
RP=$(grep -a -m1 "^VIOLATION" "$W/check.log" | sed "s/.*replay=//")
if [ -n "$RP" ]; then VERIF_WATCHDOG_SECS=${VERIF_WATCHDOG_SECS:-300} VERIF_ROOT="$W/verif" ./target/release/a2lsim replay "$RP" > "$W/replay.log" 2>&1; echo "replay in a fresh process: exit=$? $(grep -a -m1 -E "^reproduced|^different|^not reproduced" "$W/replay.log")"; fi
cd /; git -C /repo worktree remove --force "$W/repo"; rm -rf "$W"
exit $RC
