#!/usr/bin/env python3
"""tools/line_mutants.py <file under a2lfile/src> <property> [n] [seed]: small-step mutation run.
Operators on the non-test, non-hook lines of one source file: relational (< <= > >= == !=), && <-> ||, +1 / -1 constants,
numeric literal +-1, deletion of a `break;` / `continue;` / `return ...;` line, `!` removed in front of an identifier.
Every mutant that compiles is run against the quick check of <property> in a scratch worktree + scratch simulator copy.
Survivors are then run against the baseline test suite (a survivor that the existing tests kill is uninteresting)."""
import re, subprocess, sys, random, os, shutil
src, prop = sys.argv[1], sys.argv[2]
n = int(sys.argv[3]) if len(sys.argv) > 3 else 30
seed = int(sys.argv[4]) if len(sys.argv) > 4 else 1
W = f"/tmp/linemut_{os.getpid()}"
def sh(cmd, **kw): return subprocess.run(cmd, shell=True, capture_output=True, text=True, **kw)
sh(f"git -C /repo worktree add -q --detach {W}/repo HEAD")
os.makedirs(f"{W}/verif/sim", exist_ok=True)
for x in ["src", "grammar", "Cargo.toml", "Cargo.lock", ".cargo"]:
    sh(f"cp -r /verif/sim/{x} {W}/verif/sim/")
sh(f"cp /verif/known_findings.json {W}/verif/")
sh(f"sed -i 's|/repo/|{W}/repo/|g' {W}/verif/sim/Cargo.toml")
path = f"{W}/repo/a2lfile/src/{src}"
lines = open(path).read().split("\n")
end = next((i for i, l in enumerate(lines) if l.startswith("#[cfg(test)]")), len(lines))
cands = []
ops = [(r" < ", " <= "), (r" <= ", " < "), (r" > ", " >= "), (r" >= ", " > "), (r" == ", " != "), (r" != ", " == "), (r" && ", " || "), (r" \|\| ", " && "),
       (r" \+ 1\b", " + 2"), (r" - 1\b", " - 0"), (r" \+= 1\b", " += 2"), (r"\b0x([0-9a-fA-F]+)\b", None), (r"\b([2-9]|[1-9][0-9]+)\b(?![.\w])", None)]
for i, l in enumerate(lines[:end]):
    s = l.strip()
    if not s or s.startswith("//") or s.startswith("*") or s.startswith("/*") or s.startswith("#[") or "verif_hooks" in l or (i > 0 and "cfg(a2lfile_verif)" in lines[i - 1]) or s.startswith("use ") or s.startswith("///"):
        continue
    code = l.split("//")[0]
    if '"' in code: continue
    for pat, rep in ops:
        for m in re.finditer(pat, code):
            if rep is None:
                tok = m.group(0)
                try: v = int(tok, 16) if tok.startswith("0x") else int(tok)
                except ValueError: continue
                new = (hex(v + 1) if tok.startswith("0x") else str(v + 1))
                cands.append((i, m.start(), m.end(), new, f"{tok} -> {new}"))
            else:
                cands.append((i, m.start(), m.end(), rep, f"{m.group(0).strip()} -> {rep.strip()}"))
    if re.match(r"^(break|continue);$", s) or re.match(r"^return\b.*;$", s):
        cands.append((i, 0, len(l), "", f"delete `{s}`"))
    for m in re.finditer(r"!(?=[a-z_(])", code):
        if code[m.start() - 1:m.start()] not in ("=",) and not code[m.start() - 1:m.start()].isalnum():
            cands.append((i, m.start(), m.end(), "", "remove !"))
random.Random(seed).shuffle(cands)
survivors = []
try:
    print(f"{src}: {len(cands)} mutation sites; base build ...", flush=True)
    sh("cargo build --release --offline", cwd=f"{W}/verif/sim")
    done = killed = 0
    for (i, a, b, new, what) in cands:
        if done >= n: break
        mut = list(lines)
        mut[i] = lines[i][:a] + new + lines[i][b:]
        open(path, "w").write("\n".join(mut))
        r = sh("cargo build --release --offline", cwd=f"{W}/verif/sim")
        desc = f"{src}:{i + 1}: {what}   [{lines[i].strip()[:70]}]"
        if r.returncode != 0:
            continue
        r = sh(f"VERIF_WATCHDOG_SECS=120 VERIF_ROOT={W}/verif timeout 900 ./target/release/a2lsim check {prop} quick", cwd=f"{W}/verif/sim")
        done += 1
        if r.returncode == 0:
            survivors.append((i, a, b, new, desc))
            print(f"survived {desc}", flush=True)
        else:
            killed += 1
            first = next((l for l in r.stdout.split("\n") if l.startswith("violation:")), f"exit status {r.returncode}")
            print(f"killed   {desc}  {first[11:90]}", flush=True)
    print(f"{killed} of {done} viable mutants killed by {prop} quick; checking the {len(survivors)} survivors against the baseline tests")
    for (i, a, b, new, desc) in survivors:
        mut = list(lines)
        mut[i] = lines[i][:a] + new + lines[i][b:]
        open(path, "w").write("\n".join(mut))
        r = sh(f"CARGO_TARGET_DIR={W}/ttarget timeout 1200 cargo test --workspace --offline", cwd=f"{W}/repo")
        print(f"  {'baseline tests FAIL (a test-suite kill)' if r.returncode != 0 else 'baseline tests pass'}: {desc}", flush=True)
finally:
    open(path, "w").write("\n".join(lines))
    sh(f"git -C /repo worktree remove --force {W}/repo")
    shutil.rmtree(W, ignore_errors=True)
