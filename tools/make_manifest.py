#!/usr/bin/env python3
"""Writes /verif/MANIFEST.json. Edit the tables here, not the JSON."""
import json, os
ROOT = os.path.dirname(os.path.dirname(os.path.abspath(__file__)))

NA = {
 "C02": "pure function of the input text (load_from_string -> write_to_string token comparison): no schedule, fault, clock or history for a simulator to choose; the hash-order sliver is exercised under C01",
 "C04": "exhaustive walk of a finite grammar table x six versions against a pure parser: enumeration / property-based testing, not simulation",
 "C05": "line placement is a pure function of the input text; an edit is a single step on a snapshot, no state accumulates across steps",
 "C06": "a relation between two pure calls (strict / non-strict) on the same text; nothing to schedule or fail",
 "C07": "pure function of (text, insertion point, payload); no I/O, fault or interleaving involved",
 "C08": "merge_modules is a pure in-memory function of two models; sequences of merges are compositions of it; no I/O, fault or schedule",
 "C09": "same pure function as C08, judged by a reference graph extracted from its output",
 "C10": "cleanup() is a pure in-memory function of one model",
 "C11": "check() is a pure, read-only function of one model",
 "C12": "pure floating-point arithmetic on one model",
 "C14": "sort() is a pure in-memory function of one model with no accumulating state (unlike C15's position ids)",
 "C18": "pure interpreter of (definition, tokens); its two environment-dependent slivers are simulated elsewhere: A2ML /include under C16, hash-ordered tagged-struct output under C01",
 "C19": "compile-time macro expansion plus pure conversions between two in-memory representations",
 "C20": "differential comparison of two builds (translation validation), nothing runs concurrently or fails; not this technique family",
}

CHECKS = {
 "C01": dict(cat="exploration", ref="DESIGN.md 4.1",
   text="Seeded search over session histories Load; (Edit*; Save; [Environment]; Reload)^k through the simulated file system, under a controlled hash seed, read-chunking schedule and (separate configuration) injected I/O faults; oracles: reload succeeds, model equality, byte fixpoint, hash-seed independence (also for API-built IF_DATA whose tagged items tie on position id), file = text. Sampling over generated documents and histories; clean batches are evidence, not proof.",
   note="Trusted: frozen grammar table and document generator (validated against the unchanged tree: every generated document strict-loads without diagnostics); the crate's own PartialEq as the meaning of 'equal' (cross-checked on sampled cycles by element-wise Debug renderings, IF_DATA excluded); VFS models whole-file POSIX semantics only.",
   tech="deterministic simulation: seeded save/reload histories over an in-memory VFS with fault injection and controlled hash-iteration order"),
 "C03": dict(cat="fault_enumeration", ref="DESIGN.md 4.2",
   text="Valid generated documents damaged by storage faults and read by every entry point in every configuration: per document every truncation point (every crash point of a writer) and every single-token deletion / duplication / swap are enumerated, plus seeded multi-fault runs with byte-granular regions on UTF-8/16/32 files under read chunking and I/O faults, plus include trees with damaged or missing files. Oracle: the call returns; no panic, no overflow, fuel not exhausted. Exhaustive only relative to each generated document; documents are sampled.",
   note="Fault model = closure of valid documents under the fault operators (not arbitrary byte strings). Hang detection trusts the fuel tick sites added under cfg(a2lfile_verif); overflow detection relies on overflow-checks = true in the simulator build profile.",
   tech="deterministic simulation with storage-fault enumeration (torn writes at every byte, token-level and byte-level corruption) and fuel-based hang detection"),
 "C15": dict(cat="exploration", ref="DESIGN.md 4.4",
   text="Seeded search over long edit histories {push, merge, sort_new_items (runs of up to 64 consecutive calls), write, reload} on a loaded model, with an order model checked against the written text after every step. The failure class depends on history length (state accumulates across calls); sampling over histories, not enumeration.",
   note="History dimension only, no fault or schedule exists. Trusted: the independent text scanner that extracts the MODULE-level (kind, name) sequence; the order model leaves the mutual order of simultaneously inserted elements unconstrained.",
   tech="deterministic simulation: seeded long operation histories vs. step-wise order model"),
 "C16": dict(cat="fault_enumeration", ref="DESIGN.md 4.5",
   text="Include trees (1..6 files, up to 3 deep, sub/parent directories, both name syntaxes and separators, absolute paths, decoys, A2ML-level includes, empty/comment-only/UTF-16 include files, cycles) in the simulated file system; reference model = the flattened text. After the fault-free oracles (transparent load, write+reload, merge_includes) the recorded file-system call sequence of the load is re-run once for every (call, applicable fault kind) pair, then with seeded double faults. Exhaustive single-fault enumeration per scenario; scenarios are sampled.",
   note="VFS models open/fstat/read/stat/whole-file write with lexical path normalisation; symlinks, permissions on parent directories and Windows path rules are not modelled. Diagnostics compared by class.",
   tech="deterministic simulation: in-memory VFS, exhaustive single-fault injection over the recorded call trace, flattened-text reference model"),
 "C17": dict(cat="exploration", ref="DESIGN.md 4.6",
   text="Encoded files (10 encodings + Latin-1, every length residue mod 4, non-ASCII and non-BMP content) in the simulated file system, read under adversarial chunking, EINTR, short reads and fstat size lies; reference = load_from_string of the decoded text; plus storage faults on the encoded bytes for totality. Sampling over documents x encodings x read schedules.",
   note="Trusted: the harness encoder (UTF-8/16/32, Latin-1) and the document generator. First character of every document is ASCII, as the format requires.",
   tech="deterministic simulation: read-path schedules and benign I/O faults over an in-memory VFS, decoded-string reference model"),
 "C13": dict(cat="exploration", ref="DESIGN.md 4.3",
   text="Seeded search over operation histories on the real ItemList with a vector reference model consulted after every step, minimisation and exact replay. Sampling, not enumeration: the exhaustive length<=6 enumeration the property text mentions is model checking and deliberately not done.",
   note="History dimension only (ItemList has no I/O and a fixed hash). Trusted: the Vec model with Vec::swap_remove semantics; names unique at every instant.",
   tech="deterministic simulation: seeded operation histories vs. step-wise reference model (no fault dimension exists)"),
}

def main():
    claimed = sorted(CHECKS)
    m = {
     "version": 1,
     "setup_cmd": "cd /verif/sim && CARGO_NET_OFFLINE=true cargo build --release --offline",
     "hooks": {
      "guard": "--cfg a2lfile_verif (rustc cfg flag, off by default)",
      "enable": "/verif/sim/.cargo/config.toml sets build.rustflags = [\"--cfg\", \"a2lfile_verif\"]; the simulator crate depends on /repo/a2lfile by path, so every check rebuilds /repo's working tree with hooks on",
      "baseline_off_cmd": "cd /repo && cargo test --workspace --no-fail-fast --offline",
      "source_commits": ["d819af2", "44c2b21", "ba3198d"],
      "add_only": True,
     },
     "engines": [{
       "name": "a2lsim", "path": "/verif/sim", "serves_properties": claimed,
       "kind_free_text": "deterministic simulator: one choice tape per run (seeded SplitMix64), in-memory VFS with fault plan behind the cfg(a2lfile_verif) seam, getrandom interposer controlling std HashMap iteration order, fuel counter for hang detection, reference-model oracles, generic tape shrinker, replay files"}],
     "checks": [{
        "property_id": pid,
        "quick_cmd": f"./check {pid} quick",
        "thorough_cmd": f"./check {pid} thorough",
        "evidence_file": f"/verif/evidence/{pid}.json",
        "replay_cmd_template": "./check replay {path}",
        "engine": "a2lsim",
        "level_claimed": {"category": c["cat"], "text": c["text"], "design_ref": c["ref"]},
        "level_note": c["note"],
        "technique": c["tech"],
       } for pid, c in sorted(CHECKS.items())],
     "not_applicable": [{"property_id": k, "reason": v} for k, v in sorted(NA.items())],
     "notes": "Technique family: deterministic simulation with fault injection; see DESIGN.md. Exit codes of every check: 0 held, 1 violation (VIOLATION line + replay file under /verif/replays), 2 harness error. Genuine defects found and repaired are listed in known_findings.json ('fixed'); recorded-not-repaired findings under 'known' (each prints a KNOWN-FINDING line and suppresses exactly its own violation class).",
    }
    json.dump(m, open(os.path.join(ROOT, "MANIFEST.json"), "w"), indent=1)
    print("claimed:", claimed, "n/a:", len(NA))

main()
