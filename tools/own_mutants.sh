#!/bin/sh
# runs every patch in /verif/seeded/own against (1) the baseline test suite, (2) the quick check of its property,
# in scratch worktrees (never touches /repo). Results: /verif/seeded/own/RESULTS.txt
OUT=/verif/seeded/own/RESULTS.txt
: > $OUT
BW=/tmp/own_base
git -C /repo worktree add -q $BW HEAD
while read -r name prop; do
  [ -z "$name" ] && continue
  P=/verif/seeded/own/$name.diff
  if git -C $BW apply "$P"; then
    base=$(cd $BW && CARGO_TARGET_DIR=$BW/target CARGO_NET_OFFLINE=true cargo test --workspace --offline --no-fail-fast 2>&1 | grep -E "^test result" | awk '{p+=$4; f+=$6} END {print p" passed "f" failed"}')
    git -C $BW checkout -- .
  else
    base="patch does not apply"
  fi
  res=$(/verif/tools/try_mutant_wt.sh "$P" "$prop" quick 2>&1 | head -1)
  echo "$name | baseline: $base | $res" | tee -a $OUT
done <<LIST
io_single_read C17
io_trust_fstat_size C17
io_write_error_swallowed C01
hash_tiebreak_removed C01
inc_ignore_base_dir C16
inc_token_after_directive_dropped C16
enc_utf16_arms_swapped_nobom C17
enc_utf32_len_check_removed C17
enc_latin1_lossy C17
sort_cmp_by_name_only C15
sort_new_uid_plus_two C15
itemlist_retain_index C13
itemlist_rename_keeps_old_key C13
writer_backslash_not_escaped C01
writer_float_precision C01
tok_comment_end_unterminated C03
a2ml_include_rest_lost C16
LIST
git -C /repo worktree remove --force $BW
