#!/usr/bin/env python3
"""Prototype: convert the a2l_specification! DSL body into a grammar table (JSON)."""
import json, re, sys

def strip_comments(text):
    out = []
    for line in text.split('\n'):
        # doc comments and line comments
        idx = line.find('//')
        if idx >= 0:
            line = line[:idx]
        out.append(line)
    return '\n'.join(out)

TOK = re.compile(r'''\s*(?:(\[->)|(\]\*|\]\+|\]!|\])|(\{)|(\}\*|\})|(\()|(\))|(\.\.)|(,)|(/)|([A-Za-z_][A-Za-z0-9_]*(?:\[\d+\])?)|(\d+\.\d+))''')

def tokenize(text):
    pos = 0
    toks = []
    text = text.strip()
    while pos < len(text):
        m = TOK.match(text, pos)
        if not m:
            raise SystemExit("cannot tokenize at: %r" % text[pos:pos+40])
        pos = m.end()
        toks.append(m.group(m.lastindex))
        if pos < len(text) and text[pos:].strip() == '':
            break
    return toks

def parse_version(toks, i):
    # '(' [ver] '..' [ver] ')'
    assert toks[i] == '('
    i += 1
    lo = hi = None
    if toks[i] != '..':
        lo = toks[i]; i += 1
    assert toks[i] == '..', toks[i-3:i+3]
    i += 1
    if toks[i] != ')':
        hi = toks[i]; i += 1
    assert toks[i] == ')'
    return (lo, hi), i + 1

def parse_tags(toks, i):
    """NAME or NAME_X / _Y / _Z ... returns list of full tag names"""
    base = toks[i]; i += 1
    names = [base]
    while i < len(toks) and toks[i] == '/':
        suffix = toks[i+1]; i += 2
        # base ends with _X or _W ; replace last "_?" by suffix
        stem = base[:base.rfind('_')]
        names.append(stem + suffix)
    return names, i

def parse(text):
    toks = tokenize(strip_comments(text))
    i = 0
    elements = {}
    enums = {}
    order = []
    while i < len(toks):
        kind = toks[i]
        if kind == 'enum':
            name = toks[i+1]
            assert toks[i+2] == '{'
            i += 3
            items = []
            while toks[i] != '}':
                item = toks[i]; i += 1
                ver = (None, None)
                if toks[i] == '(':
                    ver, i = parse_version(toks, i)
                items.append({'name': item, 'min': ver[0], 'max': ver[1]})
                if toks[i] == ',':
                    i += 1
            i += 1
            enums[name] = items
        elif kind in ('block', 'keyword'):
            tags, i = parse_tags(toks, i + 1)
            assert toks[i] == '{', (tags, toks[i])
            i += 1
            params = []
            subs = []
            while toks[i] != '}':
                t = toks[i]
                if t == '[->':
                    subtags, i = parse_tags(toks, i + 1)
                    close = toks[i]; i += 1
                    mult = {']': 'opt', ']*': 'many', ']!': 'req', ']+': 'req_many'}[close]
                    ver = (None, None)
                    if toks[i] == '(':
                        ver, i = parse_version(toks, i)
                    subs.append({'tags': subtags, 'mult': mult, 'min': ver[0], 'max': ver[1]})
                elif t == '{':
                    i += 1
                    fields = []
                    while toks[i] != '}*':
                        fields.append({'type': toks[i], 'name': toks[i+1]}); i += 2
                    i += 1
                    lname = toks[i]; i += 1
                    params.append({'list': fields, 'name': lname})
                else:
                    params.append({'type': t, 'name': toks[i+1]}); i += 2
            i += 1
            el = {'form': kind, 'tags': tags, 'params': params, 'subs': subs}
            for tg in tags:
                elements[tg] = el
            order.append(tags[0])
        else:
            raise SystemExit("unexpected token %r at %d" % (kind, i))
    return {'elements': {k: v for k, v in elements.items()}, 'enums': enums, 'order': order}

if __name__ == '__main__':
    g = parse(open(sys.argv[1]).read())
    json.dump(g, open(sys.argv[2], 'w'), indent=1)
    print("elements:", len(g['elements']), "definitions:", len(g['order']), "enums:", len(g['enums']))
